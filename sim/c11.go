package sim

import (
	"crypto/sha256"
	"encoding/hex"
	"fmt"
	"reflect"
	"sort"
	"strings"
	"time"

	"github.com/goreleaser/nfpm/v2"
)

// GenC11 draws one C11 scenario: a world biased towards what Config.Get
// shares between formats, plus the history plan.
func GenC11(verifSeed uint64, run int) *Scenario {
	seed := Mix(verifSeed, 11, uint64(run))
	g := NewRng(seed)
	w := GenWorld(g, GenOpts{Small: true, SharedBias: true, PartialInvalidP: 0.5})
	plan := &C11Plan{Perms: true, Short: true, NRandom: 40, HistSeed: g.Uint64()}
	// one run in sixteen spends its budget on depth instead of breadth: every
	// history of length three that ends in a packaging (31 x 31 x 5), so that
	// state which needs two earlier operations to build up is not left to the
	// 120 sampled triples (drawn last: the worlds of all runs stay as they were)
	plan.Deep3 = g.Bool(1.0 / 16)
	return &Scenario{Property: "C11", VerifSeed: verifSeed, Run: run, RunSeed: seed, World: w, C11: plan}
}

// c11Sign: where a key file is configured for deb/rpm the history and the
// reference both sign through the deterministic simulated signer, because
// nfpm's key-file signatures are salted and have no byte oracle.
func c11Sign(w *World, f string) string {
	if contains(w.Signed, f) && (f == "deb" || f == "rpm") {
		return "callback"
	}
	return ""
}

var c11OpKinds = []string{"get", "name", "package", "name+package", "prepare", "validate-info"}

func permutations(xs []string) [][]string {
	if len(xs) <= 1 {
		return [][]string{append([]string{}, xs...)}
	}
	var out [][]string
	for i := range xs {
		rest := append(append([]string{}, xs[:i]...), xs[i+1:]...)
		for _, p := range permutations(rest) {
			out = append(out, append([]string{xs[i]}, p...))
		}
	}
	return out
}

// c11Histories expands the plan into the list of histories (pure function of
// the plan and the world).
func c11Histories(sc *Scenario) [][]Op {
	plan := sc.C11
	if len(plan.Histories) > 0 {
		return plan.Histories
	}
	g := NewRng(plan.HistSeed)
	var out [][]Op
	if plan.Perms {
		for i, p := range permutations(Formats) {
			var h []Op
			for j, f := range p {
				op := "package"
				if (i+j)%3 == 0 {
					op = "name+package"
				}
				h = append(h, Op{Op: op, Format: f})
			}
			out = append(out, h)
		}
	}
	alphabet := []Op{{Op: "validate"}}
	for _, k := range c11OpKinds {
		for _, f := range Formats {
			alphabet = append(alphabet, Op{Op: k, Format: f})
		}
	}
	if plan.Short {
		for _, a := range alphabet {
			out = append(out, []Op{a})
		}
		for _, a := range alphabet {
			for _, b := range alphabet {
				// a history is only interesting if something is packaged in it
				if strings.Contains(a.Op, "package") || strings.Contains(b.Op, "package") {
					out = append(out, []Op{a, b})
				}
			}
		}
		for i := 0; i < 120; i++ {
			out = append(out, []Op{Pick(g, alphabet), Pick(g, alphabet), {Op: "package", Format: Pick(g, Formats)}})
		}
		// state that needs three operations to show: the same format twice,
		// then another one; and a format, another one, the first again
		for _, f := range Formats {
			for _, h := range Formats {
				out = append(out, []Op{{Op: "package", Format: f}, {Op: "package", Format: f}, {Op: "package", Format: h}})
				if f != h {
					out = append(out, []Op{{Op: "package", Format: f}, {Op: "package", Format: h}, {Op: "package", Format: f}})
				}
			}
		}
	}
	if plan.Deep3 {
		for _, a := range alphabet {
			for _, b := range alphabet {
				for _, f := range Formats {
					out = append(out, []Op{a, b, {Op: "package", Format: f}})
				}
			}
		}
	}
	for i := 0; i < plan.NRandom; i++ {
		n := g.Range(3, 12)
		var h []Op
		for j := 0; j < n; j++ {
			if g.Bool(0.15) {
				op := Op{Op: "package-fail", Format: Pick(g, Formats)}
				if g.Bool(0.5) || len(sc.World.Refs) == 0 {
					op.Sink = &SinkFault{At: g.Intn(3), Kind: Pick(g, []string{"error", "partial"}), N: 1, Persistent: g.Bool(0.5)}
				} else {
					r := Pick(g, sc.World.Refs)
					op.Format = Pick(g, r.Formats)
					op.FS = &FSFault{Path: r.Path, Kind: "remove"}
				}
				h = append(h, op)
				continue
			}
			h = append(h, Pick(g, alphabet))
		}
		h = append(h, Op{Op: "package", Format: Pick(g, Formats)})
		out = append(out, h)
	}
	return out
}

// dumpValue writes a canonical rendering of v: pointers followed, map keys
// sorted, funcs reduced to nil/non-nil.
func dumpValue(sb *strings.Builder, v reflect.Value, depth int) {
	if depth > 12 {
		sb.WriteString("<deep>")
		return
	}
	switch v.Kind() {
	case reflect.Ptr, reflect.Interface:
		if v.IsNil() {
			sb.WriteString("nil")
			return
		}
		sb.WriteString("&")
		dumpValue(sb, v.Elem(), depth+1)
	case reflect.Struct:
		if t, ok := v.Interface().(time.Time); ok {
			if t.IsZero() {
				sb.WriteString("time(zero)")
			} else {
				fmt.Fprintf(sb, "time(%d)", t.UnixNano())
			}
			return
		}
		sb.WriteString("{")
		for i := 0; i < v.NumField(); i++ {
			f := v.Type().Field(i)
			if !f.IsExported() {
				continue
			}
			sb.WriteString(f.Name)
			sb.WriteString(":")
			dumpValue(sb, v.Field(i), depth+1)
			sb.WriteString(";")
		}
		sb.WriteString("}")
	case reflect.Slice, reflect.Array:
		if v.Kind() == reflect.Slice && v.IsNil() {
			sb.WriteString("[]")
			return
		}
		sb.WriteString("[")
		for i := 0; i < v.Len(); i++ {
			dumpValue(sb, v.Index(i), depth+1)
			sb.WriteString(",")
		}
		sb.WriteString("]")
	case reflect.Map:
		keys := v.MapKeys()
		sort.Slice(keys, func(i, j int) bool { return fmt.Sprint(keys[i].Interface()) < fmt.Sprint(keys[j].Interface()) })
		sb.WriteString("map[")
		for _, k := range keys {
			fmt.Fprintf(sb, "%v=", k.Interface())
			dumpValue(sb, v.MapIndex(k), depth+1)
			sb.WriteString(",")
		}
		sb.WriteString("]")
	case reflect.Func:
		if v.IsNil() {
			sb.WriteString("func(nil)")
		} else {
			sb.WriteString("func(set)")
		}
	case reflect.String:
		fmt.Fprintf(sb, "%q", v.String())
	default:
		fmt.Fprintf(sb, "%v", v.Interface())
	}
}

// DumpSettings: the effective settings the configuration yields, per format.
func DumpSettings(cfg *nfpm.Config) (map[string]string, error) {
	out := map[string]string{}
	for _, f := range Formats {
		info, err := cfg.Get(f)
		if err != nil {
			return nil, fmt.Errorf("Get(%s): %w", f, err)
		}
		var sb strings.Builder
		dumpValue(&sb, reflect.ValueOf(info), 0)
		out[f] = sb.String()
	}
	return out, nil
}

func diffAt(a, b string) string {
	n := len(a)
	if len(b) < n {
		n = len(b)
	}
	i := 0
	for i < n && a[i] == b[i] {
		i++
	}
	lo := i - 60
	if lo < 0 {
		lo = 0
	}
	ha, hb := i+60, i+60
	if ha > len(a) {
		ha = len(a)
	}
	if hb > len(b) {
		hb = len(b)
	}
	return fmt.Sprintf("before: …%s… after: …%s…", a[lo:ha], b[lo:hb])
}

func histString(h []Op) string {
	var parts []string
	for _, o := range h {
		s := o.Op
		if o.Format != "" {
			s += "(" + o.Format + ")"
		}
		parts = append(parts, s)
	}
	return strings.Join(parts, " → ")
}

// RunC11 executes a C11 scenario.
func RunC11(rt *Runtime, sc *Scenario) RunResult {
	res := RunResult{Run: sc.Run, RunSeed: sc.RunSeed, Counters: map[string]int64{}}
	elog := NewEventLog()
	w := &sc.World
	if err := Materialize(rt.Root, w.Tree); err != nil {
		res.Trouble = "materialize: " + err.Error()
		return res
	}
	rt.SetEnv(w.Env)
	if err := rt.SetSrcMode("rel"); err != nil {
		res.Trouble = "chdir: " + err.Error()
		return res
	}
	// reference model F(f): fresh parse, alone, fault-free
	refs := map[string]*RefInfo{}
	for _, f := range Formats {
		ref, ok, err := rt.Reference(w, f, c11Sign(w, f), "", 0)
		res.Counters["builds"] += int64(ref.Builds)
		res.Notes = append(res.Notes, ref.Notes...)
		if err != nil {
			res.Trouble = "reference setup: " + err.Error()
			return res
		}
		if contains(w.ExpectFail, f) {
			// invalid for this format by construction: it must fail alone too
			if ok {
				res.Trouble = fmt.Sprintf("generator: %s was expected to be invalid for this configuration but builds", f)
				return res
			}
			res.Counters["probe.format_fails_by_construction"]++
			res.Notes = res.Notes[:len(res.Notes)-len(ref.Notes)]
			continue
		}
		if !ok {
			res.Counters["reference_failed"]++
			continue
		}
		if !ref.Stable {
			res.Counters["unstable_reference"]++
		}
		refs[f] = ref
	}
	seen := map[string]bool{}
	violate := func(v Violation) {
		v.Property = "C11"
		if seen[v.Key()] {
			return
		}
		seen[v.Key()] = true
		res.Violations = append(res.Violations, v)
	}
	cfgHash := sha256.Sum256([]byte(w.Config))
	cfgTag := hex.EncodeToString(cfgHash[:4])
	distinct := map[string]bool{}
	hists := c11Histories(sc)
	if sc.C11.Deep3 {
		res.Counters["probe.deep3_exhaustive_length_3"]++
	}
	for hi, h := range hists {
		var trouble string
		leaked := rt.InBubble(SimNow, func() {
			trouble = runHistory(rt, w, h, refs, elog, &res, violate)
		})
		if leaked {
			res.Counters["bubble_goroutine_leak"]++
		}
		if trouble != "" {
			res.Trouble = fmt.Sprintf("history %d: %s", hi, trouble)
			return res
		}
		res.Counters["histories"]++
		fs := map[string]bool{}
		for _, o := range h {
			if o.Format != "" {
				fs[o.Format] = true
			}
		}
		if len(fs) >= 2 {
			hs := sha256.Sum256([]byte(histString(h)))
			distinct[cfgTag+"|"+hex.EncodeToString(hs[:6])] = true
		}
	}
	for k := range distinct {
		res.Distinct = append(res.Distinct, k)
	}
	sort.Strings(res.Distinct)
	res.LogHash = elog.Sum()
	if len(hists) > 0 {
		res.Sample = map[string]any{"run": sc.Run, "features": w.Features, "histories": len(hists), "example_history": histString(hists[len(hists)-1]), "example_permutation": histString(hists[0])}
	}
	return res
}

func runHistory(rt *Runtime, w *World, h []Op, refs map[string]*RefInfo, elog *EventLog, res *RunResult, violate func(Violation)) string {
	cfg, err := rt.ParseConfig(w.Config)
	if err != nil {
		return "parse: " + err.Error()
	}
	before, err := DumpSettings(&cfg)
	if err != nil {
		return "settings before: " + err.Error()
	}
	elog.Add("history %s", histString(h))
	for i, op := range h {
		res.Counters["ops"]++
		res.Counters["evaluations_extra"]++
		switch op.Op {
		case "validate":
			err := cfg.Validate()
			elog.Add("validate failed=%v", err != nil)
		case "get":
			_, err := cfg.Get(op.Format)
			elog.Add("get %s failed=%v", op.Format, err != nil)
		case "prepare", "validate-info":
			// library entry points a caller may use on the settings of one
			// format without packaging them
			info, err := cfg.Get(op.Format)
			if err != nil {
				return "get: " + err.Error()
			}
			info = nfpm.WithDefaults(nfpm.WithDefaults(info)) // defaults are idempotent by contract
			if op.Op == "prepare" {
				err = nfpm.PrepareForPackager(info, op.Format)
			} else {
				err = nfpm.Validate(info)
			}
			elog.Add("%s %s failed=%v", op.Op, op.Format, err != nil)
		case "name":
			info, err := cfg.Get(op.Format)
			if err != nil {
				return "get: " + err.Error()
			}
			info = nfpm.WithDefaults(info)
			p, _ := nfpm.Get(op.Format)
			elog.Add("name %s = %s", op.Format, p.ConventionalFileName(info))
		case "package", "name+package", "package-fail":
			info, err := cfg.Get(op.Format)
			if err != nil {
				return "get: " + err.Error()
			}
			info = nfpm.WithDefaults(info)
			o := BuildOpts{Format: op.Format, PreName: op.Op == "name+package"}
			if c11Sign(w, op.Format) == "callback" {
				sg := NewSimSigner(signerKind(w, op.Format, w.Config), nil)
				if err := sg.Prepare(); err != nil {
					return "signer: " + err.Error()
				}
				o.Signer = sg
			}
			var restore func() error
			if op.Op == "package-fail" {
				o.Fault = op.Sink
				if op.FS != nil {
					var ferr error
					restore, ferr = ApplyFSFault(rt.Root, w.Tree, op.FS)
					if ferr != nil {
						return "fs fault: " + ferr.Error()
					}
				}
			}
			r := PackageInfo(info, o)
			if restore != nil {
				if rerr := restore(); rerr != nil {
					return "fs restore: " + rerr.Error()
				}
			}
			res.Counters["builds"]++
			sum := sha256.Sum256(r.Bytes)
			elog.Add("%s %s failed=%v bytes=%d sha=%x", op.Op, op.Format, r.Err != nil, len(r.Bytes), sum[:8])
			if op.Op == "package-fail" {
				res.Counters["fault_fired.package_fail"]++
				continue
			}
			ref := refs[op.Format]
			if ref == nil {
				continue
			}
			hist := append([]Op{}, h[:i+1]...)
			if r.Err != nil {
				violate(Violation{Oracle: "bytes", Format: op.Format, Group: "fails-after-history",
					Detail: fmt.Sprintf("%s: packaging fails after the history [%s] although it succeeds from a freshly parsed configuration: %v", op.Format, histString(hist), scrub(rt, r.Err.Error())), History: hist})
				continue
			}
			if ref.Stable && !ref.Match(r.Bytes) {
				violate(Violation{Oracle: "bytes", Format: op.Format, Group: "differs-after-history",
					Detail: fmt.Sprintf("%s: package built after the history [%s] differs from the one built from a freshly parsed configuration: %s", op.Format, histString(hist), firstDiff(r.Bytes, ref.F)), History: hist})
			}
		default:
			return "unknown op " + op.Op
		}
	}
	after, err := DumpSettings(&cfg)
	if err != nil {
		return "settings after: " + err.Error()
	}
	for _, f := range Formats {
		if before[f] != after[f] {
			violate(Violation{Oracle: "settings", Format: f, Group: "settings-changed",
				Detail: fmt.Sprintf("effective settings for %s changed after the history [%s]: %s", f, histString(h), diffAt(before[f], after[f])), History: append([]Op{}, h...)})
			break
		}
	}
	return ""
}

// scrub removes the per-process scratch path from error texts.
func scrub(rt *Runtime, s string) string {
	return strings.ReplaceAll(s, rt.Root, "<root>")
}
