package sim

import (
	"runtime"
	"syscall"
	"unsafe"
)

// Baton scheduler (seam S6). Clients are real goroutines running real nfpm
// code; exactly one of them runs at a time. A client runs until it reaches a
// yield point, tells the controller, and parks; the controller (owner of the
// PRNG) picks who is released next.
//
// The hand-off uses raw SYS_READ/SYS_WRITE on pipes through syscall.Syscall.
// Channels, mutexes, atomics and even syscall.Read/Write carry race-detector
// acquire/release annotations and would create happens-before edges between
// clients, hiding every race between them. Raw syscalls carry none: although
// the clients are strictly serialised in real time, ThreadSanitizer still
// sees them as concurrent. The yield path uses no fmt, sync, channels or
// pooled objects for the same reason.

type pipe struct{ r, w int }

func newPipe() (pipe, error) {
	var fds [2]int
	if err := syscall.Pipe(fds[:]); err != nil {
		return pipe{}, err
	}
	return pipe{r: fds[0], w: fds[1]}, nil
}

func (p pipe) close() {
	syscall.Close(p.r)
	syscall.Close(p.w)
}

func rawWrite(fd int, b *[2]byte) {
	for {
		_, _, e := syscall.Syscall(syscall.SYS_WRITE, uintptr(fd), uintptr(unsafe.Pointer(b)), 2)
		if e == syscall.EINTR {
			continue
		}
		return
	}
}

func rawRead(fd int, b *[2]byte) bool {
	for {
		n, _, e := syscall.Syscall(syscall.SYS_READ, uintptr(fd), uintptr(unsafe.Pointer(b)), 2)
		if e == syscall.EINTR {
			continue
		}
		return e == 0 && n == 2
	}
}

const (
	msgYield = 1
	msgDone  = 2
)

type batonClient struct {
	id   int
	wake pipe
	buf  [2]byte
}

type Baton struct {
	ctrl    pipe
	clients []*batonClient
}

func NewBaton(n int) (*Baton, error) {
	b := &Baton{}
	var err error
	if b.ctrl, err = newPipe(); err != nil {
		return nil, err
	}
	for i := 0; i < n; i++ {
		c := &batonClient{id: i}
		if c.wake, err = newPipe(); err != nil {
			return nil, err
		}
		b.clients = append(b.clients, c)
	}
	return b, nil
}

func (b *Baton) Close() {
	b.ctrl.close()
	for _, c := range b.clients {
		c.wake.close()
	}
}

// YieldCode is called by client id on its own goroutine: report the yield
// (with its site code) to the controller and park until released.
func (b *Baton) YieldCode(id int, code int) {
	c := b.clients[id]
	c.buf[0], c.buf[1] = byte(msgYield|code<<2), byte(id)
	rawWrite(b.ctrl.w, &c.buf)
	rawRead(c.wake.r, &c.buf)
}

// Hold parks the client until the controller has nobody else to run.
func (b *Baton) Hold(id int) {
	c := b.clients[id]
	c.buf[0], c.buf[1] = msgHold, byte(id)
	rawWrite(b.ctrl.w, &c.buf)
	rawRead(c.wake.r, &c.buf)
}

// WaitStart parks the client until the controller releases it the first time.
func (b *Baton) WaitStart(id int) {
	c := b.clients[id]
	rawRead(c.wake.r, &c.buf)
}

// Done tells the controller the client has finished.
func (b *Baton) Done(id int) {
	c := b.clients[id]
	c.buf[0], c.buf[1] = msgDone, byte(id)
	rawWrite(b.ctrl.w, &c.buf)
}

// release lets client id run; wait blocks until the running client yields or
// finishes. Both are called by the controller only.
func (b *Baton) release(id int) {
	var m [2]byte
	m[0], m[1] = 0, byte(id)
	rawWrite(b.clients[id].wake.w, &m)
}

func (b *Baton) wait() (kind, id int, ok bool) {
	var m [2]byte
	if !rawRead(b.ctrl.r, &m) {
		return 0, 0, false
	}
	return int(m[0]), int(m[1]), true
}

type pollFd struct {
	fd      int32
	events  int16
	revents int16
}

// waitTimeout is wait with a deadline (raw poll(2), no happens-before edge).
// timedOut means the released client neither yielded nor finished: it is
// blocked on something a parked client holds (a lock taken by code under
// test), and the controller has to let somebody else run.
func (b *Baton) waitTimeout(ms int) (kind, id int, ok, timedOut bool) {
	pfd := pollFd{fd: int32(b.ctrl.r), events: 1 /* POLLIN */}
	for {
		n, _, e := syscall.Syscall(syscall.SYS_POLL, uintptr(unsafe.Pointer(&pfd)), 1, uintptr(ms))
		if e == syscall.EINTR {
			continue
		}
		if e != 0 {
			return 0, 0, false, false
		}
		if n == 0 {
			return 0, 0, true, true
		}
		break
	}
	kind, id, ok = b.wait()
	return kind, id, ok, false
}

// curGID: the id of the calling goroutine (yield hooks that can be reached
// from goroutines of the code under test - an asynchronous compressor writing
// to the sink - use it to let only the client goroutine itself yield).
//
//go:norace
func curGID() uint64 {
	var buf [48]byte
	n := runtime.Stack(buf[:], false)
	// "goroutine 123 [running]:"
	var id uint64
	for i := len("goroutine "); i < n; i++ {
		c := buf[i]
		if c < '0' || c > '9' {
			break
		}
		id = id*10 + uint64(c-'0')
	}
	return id
}
