package sim

import (
	"math/rand/v2"
)

// Mix folds a list of integers into one 64-bit seed (splitmix64 chain). It is
// the only way seeds are derived: run seed = Mix(VERIF_SEED, propertyNumber,
// runIndex), independent of worker count.
func Mix(vals ...uint64) uint64 {
	var h uint64 = 0x243f6a8885a308d3
	for _, v := range vals {
		h ^= v + 0x9e3779b97f4a7c15 + (h << 6) + (h >> 2)
		h += 0x9e3779b97f4a7c15
		z := h
		z = (z ^ (z >> 30)) * 0xbf58476d1ce4e5b9
		z = (z ^ (z >> 27)) * 0x94d049bb133111eb
		h = z ^ (z >> 31)
	}
	return h
}

// Rng is the single choice source of a run.
type Rng struct {
	r *rand.Rand
}

func NewRng(seed uint64) *Rng {
	return &Rng{r: rand.New(rand.NewPCG(seed, Mix(seed, 0x5eed)))}
}

func (g *Rng) Intn(n int) int {
	if n <= 0 {
		return 0
	}
	return g.r.IntN(n)
}

func (g *Rng) Range(lo, hi int) int { // inclusive
	if hi <= lo {
		return lo
	}
	return lo + g.r.IntN(hi-lo+1)
}

func (g *Rng) Int63n(n int64) int64 {
	if n <= 0 {
		return 0
	}
	return g.r.Int64N(n)
}

func (g *Rng) Uint64() uint64 { return g.r.Uint64() }

func (g *Rng) Bool(p float64) bool { return g.r.Float64() < p }

func (g *Rng) Float() float64 { return g.r.Float64() }

func Pick[T any](g *Rng, xs []T) T { return xs[g.Intn(len(xs))] }

func (g *Rng) Shuffle(n int, swap func(i, j int)) { g.r.Shuffle(n, swap) }

// fillBytes produces n deterministic bytes from a fill seed. Low two bits of
// the seed pick the texture: 0 = highly compressible text, otherwise random.
func fillBytes(fill uint64, n int) []byte {
	out := make([]byte, n)
	if fill&3 == 0 {
		pat := []byte("nfpm-verif line " + string('a'+rune((fill>>2)%26)) + " lorem ipsum dolor sit amet\n")
		for i := 0; i < n; i++ {
			out[i] = pat[i%len(pat)]
		}
		return out
	}
	x := fill
	for i := 0; i < n; i += 8 {
		x += 0x9e3779b97f4a7c15
		z := x
		z = (z ^ (z >> 30)) * 0xbf58476d1ce4e5b9
		z = (z ^ (z >> 27)) * 0x94d049bb133111eb
		z ^= z >> 31
		for j := 0; j < 8 && i+j < n; j++ {
			out[i+j] = byte(z >> (8 * j))
		}
	}
	return out
}
