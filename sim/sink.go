package sim

import (
	"errors"
	"io"
	"sync/atomic"
)

// ErrSinkFault is what the simulated destination returns (a full disk).
var ErrSinkFault = errors.New("verif: simulated sink failure (no space left on device)")

// Sink is the simulated output destination (seam S1). It records every
// Write, applies the fault plan and is a scheduler yield point.
type Sink struct {
	Fault *SinkFault
	Yield func(site string) // nil outside scheduled runs

	buf    []byte
	Trace  []int // length of every Write call, in order
	Fired  int   // number of Write calls that returned a non-nil error
	failed bool  // persistent fault has fired

	returned atomic.Bool  // the packaging call this sink was handed to has returned
	late     atomic.Int64 // Write calls that arrived after that
}

// MarkReturned: the packaging call has returned; the writer is the caller's
// again. Anything written from now on comes from a goroutine that outlived
// the call.
func (s *Sink) MarkReturned() { s.returned.Store(true) }

// LateWrites counts writes that arrived after MarkReturned.
func (s *Sink) LateWrites() int64 { return s.late.Load() }

func NewSink(f *SinkFault) *Sink { return &Sink{Fault: f} }

func (s *Sink) Bytes() []byte { return s.buf }

func (s *Sink) Write(p []byte) (int, error) {
	if s.returned.Load() {
		// not stored, not traced: the buffers belong to the caller now
		s.late.Add(1)
		return len(p), nil
	}
	if s.Yield != nil {
		s.Yield("sink.write")
	}
	k := len(s.Trace)
	s.Trace = append(s.Trace, len(p))
	if s.Fault != nil {
		if s.failed && s.Fault.Persistent {
			s.Fired++
			return 0, ErrSinkFault
		}
		if k == s.Fault.At {
			s.failed = true
			s.Fired++
			if s.Fault.Kind == "partial" {
				n := s.Fault.N
				if n >= len(p) {
					n = len(p) - 1
				}
				if n < 0 {
					n = 0
				}
				s.buf = append(s.buf, p[:n]...)
				return n, io.ErrShortWrite
			}
			return 0, ErrSinkFault
		}
	}
	s.buf = append(s.buf, p...)
	return len(p), nil
}
