#!/bin/bash
# confirm_mutant.sh <worktree> : confirm, from <worktree>/MUTANT.diff, that a
# seeded change compiles, passes the existing suite, and that its demonstration
# fails with it and passes without it. (No git stash: the stash is shared by
# all worktrees of a repository.)
WT=$1
export GOFLAGS=-mod=mod GOPROXY=off GOSUMDB=off
cd "$WT" || exit 2
git checkout -q -- . || exit 2
git clean -fdq -e demo -e MUTANT.diff -e META.txt
git apply MUTANT.diff || { echo "MUTANT.diff does not apply"; exit 1; }
RACE=""
grep -q -- "-race" META.txt 2>/dev/null && RACE="-race"
go build ./... || { echo "BUILD FAILS"; exit 1; }
PK=$(go list ./... | grep -v /demo)
if go test -vet=off -count=1 $PK >/tmp/confirm-suite.$$ 2>&1; then echo "suite: pass"; else echo "suite: FAIL"; tail -20 /tmp/confirm-suite.$$; rm -f /tmp/confirm-suite.$$; exit 1; fi
rm -f /tmp/confirm-suite.$$
if go test -vet=off -count=1 $RACE ./demo/... >/dev/null 2>&1; then echo "demo with change: PASSES (bad)"; exit 1; else echo "demo with change: fails (good)"; fi
git apply -R MUTANT.diff || exit 2
git clean -fdq -e demo -e MUTANT.diff -e META.txt
if go test -vet=off -count=1 $RACE ./demo/... >/dev/null 2>&1; then echo "demo without change: passes (good)"; R=0; else echo "demo without change: FAILS (bad)"; R=1; fi
git apply MUTANT.diff
exit $R
