package sim

// Formats in the fixed order used everywhere (never range over a map).
var Formats = []string{"deb", "rpm", "apk", "ipk", "archlinux"}

// Scenario is the replay file: everything a run depends on, as plain JSON.
// The generator is a pure function PRNG -> Scenario, the runner a pure
// function Scenario -> (event log, verdict).
type Scenario struct {
	Property  string `json:"property"`
	VerifSeed uint64 `json:"verif_seed"`
	Run       int    `json:"run"`
	RunSeed   uint64 `json:"run_seed"`
	World     World  `json:"world"`

	C06 *C06Plan `json:"c06,omitempty"`
	C07 *C07Plan `json:"c07,omitempty"`
	C10 *C10Plan `json:"c10,omitempty"`
	C11 *C11Plan `json:"c11,omitempty"`
	C12 *C12Plan `json:"c12,omitempty"`

	Violation *Violation `json:"violation,omitempty"`
}

type TreeEntry struct {
	Path   string `json:"path"` // relative to the world root
	Kind   string `json:"kind"` // file | dir | symlink
	Size   int    `json:"size,omitempty"`
	Fill   uint64 `json:"fill,omitempty"`
	Text   string `json:"text,omitempty"`   // literal contents (scripts, changelog)
	KeyRef string `json:"keyref,omitempty"` // copy of /verif/keys/<name>
	Target string `json:"target,omitempty"` // symlink target
	Mode   uint32 `json:"mode,omitempty"`
	MTime  int64  `json:"mtime,omitempty"`
}

// Ref is one file reference of the configuration together with the formats
// that consume it (table from www/docs/configuration.md, not from the code).
type Ref struct {
	Path    string   `json:"path"`    // tree path; for globs the directory holding all matches
	Kind    string   `json:"kind"`    // content | tree | glob | script | changelog | key
	Formats []string `json:"formats"` // formats that must fail when it is gone
	Single  bool     `json:"single"`  // a single-file reference (dir / dangling variants apply)
}

type World struct {
	Tree     []TreeEntry       `json:"tree"`
	Config   string            `json:"config"` // YAML; the token @SRC@ stands before every on-disk source path
	Env      map[string]string `json:"env,omitempty"`
	Refs     []Ref             `json:"refs,omitempty"`
	Features []string          `json:"features,omitempty"`
	Signed   []string          `json:"signed,omitempty"` // formats that have signature.key_file configured
	KeyName  string            `json:"key_name,omitempty"`
	// ExpectFail: formats for which this configuration is invalid by
	// construction (format-specific collision / setting): their packaging
	// must fail, everybody else's must be unaffected by that failure.
	ExpectFail []string `json:"expect_fail,omitempty"`
	// MTimeFixed: the package mtime is fixed through the mtime field or SOURCE_DATE_EPOCH.
	MTimeFixed string `json:"mtime_fixed,omitempty"` // "", "field", "env"
	MTime      int64  `json:"mtime,omitempty"`
	// EntryMTimes: per-entry file_info.mtime values configured (for C07 oracle B).
	EntryMTimes []int64 `json:"entry_mtimes,omitempty"`
}

// Fault on the output sink.
type SinkFault struct {
	At         int    `json:"at"`   // write index
	Kind       string `json:"kind"` // error | partial
	N          int    `json:"n"`    // bytes accepted for partial
	Persistent bool   `json:"persistent"`
}

// Fault on the signer.
type SignerFault struct {
	FailCall int `json:"fail_call"` // 1-based call that fails; 0 = none
	ReadN    int `json:"read_n"`    // bytes read before failing; -1 = read everything
	// WithBytes: the failing call returns some bytes together with its error
	// (what `return cmd.Output()` around an external signer does)
	WithBytes bool `json:"with_bytes,omitempty"`
}

// FSFault edits the materialised tree before an operation.
type FSFault struct {
	Path string `json:"path"`
	Kind string `json:"kind"` // remove | dir | dangling | truncate | garbage | empty | eio | unreadable | replace
	// KeyRef (kind replace): the harness key whose content the file gets; size
	// may change, the modification time stays what the scenario's tree says
	KeyRef string `json:"key_ref,omitempty"`
}

// Case is one faulty build of C06/C10.
type Case struct {
	Format   string            `json:"format"`
	Sign     string            `json:"sign,omitempty"` // "" as configured | "callback" | "none"
	Class    string            `json:"class"`          // sink | ref | invalid | signer | keyfile | clean
	Sink     *SinkFault        `json:"sink,omitempty"`
	Signer   *SignerFault      `json:"signer,omitempty"`
	FS       *FSFault          `json:"fs,omitempty"`
	Invalid  string            `json:"invalid,omitempty"` // name of the invalid-setting class
	Config   string            `json:"config,omitempty"`  // replacement config for invalid-setting cases
	Env      map[string]string `json:"env,omitempty"`     // replacement env (wrong passphrase)
	GoMaxPro int               `json:"gomaxprocs,omitempty"`
	PadDesc  int               `json:"pad_desc,omitempty"` // lengthen the description by this many bytes (alignment sweeps)
	Key      string            `json:"key,omitempty"`      // harness key the case's configuration signs with (matrix cases)
	// SignBinary: the callback returns a binary (not armored) OpenPGP
	// signature for deb debsign
	SignBinary bool `json:"sign_binary,omitempty"`
}

type InvalidCase struct {
	Class   string   `json:"class"`
	Config  string   `json:"config"`
	Formats []string `json:"formats"`
}

type Variant struct {
	Format string `json:"format"`
	Sign   string `json:"sign,omitempty"` // "" as configured | callback | none
}

type C06Plan struct {
	Variants []Variant `json:"variants,omitempty"`
	SrcMode  string    `json:"src_mode,omitempty"`
	// Cases: when empty the runner enumerates the whole fault space of the
	// scenario; a minimised replay file carries exactly the failing case.
	Cases      []Case        `json:"cases,omitempty"`
	Invalid    []InvalidCase `json:"invalid,omitempty"`
	GoMaxProcs int           `json:"gomaxprocs"`
	PartialN   []uint64      `json:"partial_draws,omitempty"` // PRNG draws for partial lengths
	CLI        bool          `json:"cli,omitempty"`
}

type Env07 struct {
	ClockOffsetS int64  `json:"clock_offset_s"`
	TZOffsetMin  int    `json:"tz_offset_min"`
	GoMaxProcs   int    `json:"gomaxprocs"`
	SrcMode      string `json:"src_mode"` // rel | abs | dotdot
	History      int    `json:"history"`  // unrelated packagings earlier in the process
	Neighbour    bool   `json:"neighbour"`
	Child        bool   `json:"child"`               // cross-process through the CLI
	Umask        int    `json:"umask,omitempty"`     // process umask during the build (0 = leave)
	EnvNoise     int    `json:"env_noise,omitempty"` // which set of unrelated ambient variables (HOME, USER, LANG, TMPDIR, ...) is installed
	Hostname     string `json:"hostname,omitempty"`  // child only: host name inside a private UTS namespace
	Relocate     bool   `json:"relocate,omitempty"`  // build from a second copy of the tree at another path, created in reverse order
	// RelocName: name of the directory the second copy lives in ("" = a plain
	// name): a directory may be called anything, e.g. contain characters that
	// mean something in a glob pattern. Not used with absolute source paths
	// (there the name would be part of the configuration).
	RelocName string `json:"reloc_name,omitempty"`
}

type C07Plan struct {
	ProbeConfig string   `json:"probe_config,omitempty"` // the configuration without a fixed mtime (negative control)
	Envs        []Env07  `json:"envs"`
	Formats     []string `json:"formats,omitempty"` // restrict (replay)
}

type C10Plan struct {
	Sweep      bool   `json:"sweep,omitempty"` // metadata-length sweep across block/alignment boundaries
	Cases      []Case `json:"cases,omitempty"`
	SrcMode    string `json:"src_mode,omitempty"`
	GoMaxProcs int    `json:"gomaxprocs,omitempty"`
}

type Op struct {
	Op     string     `json:"op"` // validate | get | name | package | name+package | package-fail
	Format string     `json:"format,omitempty"`
	Sink   *SinkFault `json:"sink,omitempty"`
	FS     *FSFault   `json:"fs,omitempty"`
}

type C11Plan struct {
	Histories [][]Op `json:"histories,omitempty"`
	Perms     bool   `json:"perms,omitempty"` // bounded-exhaustive: all 120 orders
	Short     bool   `json:"short,omitempty"` // all sequences of length <= 2 (+ sampled 3)
	NRandom   int    `json:"n_random,omitempty"`
	HistSeed  uint64 `json:"hist_seed,omitempty"`
	Deep3     bool   `json:"deep3,omitempty"` // bounded-exhaustive: every history a, b, package(f) over the whole alphabet
}

type Client struct {
	ID       int    `json:"id"`
	Config   int    `json:"config"` // index of the parsed Config this client uses
	Format   string `json:"format"`
	Kind     string `json:"kind"`               // package | prepare (Get + WithDefaults + PrepareForPackager only, then parked)
	Name     bool   `json:"name,omitempty"`     // ask for the conventional file name first
	Validate bool   `json:"validate,omitempty"` // call Config.Validate first
	Signer   bool   `json:"signer,omitempty"`   // own simulated signer (deb/rpm/apk)
}

type Switch struct {
	Yield  int `json:"y"` // global yield number
	Client int `json:"c"` // client released at that yield
}

type C12Plan struct {
	AltConfig    string   `json:"alt_config,omitempty"` // the independently built settings (config index 1): a variant with other name, description and one more file, so that cross-talk between the two shows in the bytes
	AltFails     bool     `json:"alt_fails,omitempty"`  // the independently built settings reference a missing script: their packagings fail part-way
	NConfigs     int      `json:"n_configs"`
	Clients      []Client `json:"clients"`
	Mode         string   `json:"mode"` // baton | free
	GoMaxProcs   int      `json:"gomaxprocs"`
	SwitchP      float64  `json:"switch_p"`
	Guided       bool     `json:"guided"`
	RefAfter     bool     `json:"ref_after,omitempty"` // build the sequential references after the concurrent phase (cold process-wide state during it)
	Instr        bool     `json:"instr,omitempty"`     // needs the ast-instrumented build
	InstrSwitchP float64  `json:"instr_switch_p,omitempty"`
	InstrWanted  bool     `json:"instr_wanted,omitempty"` // use the ast-inserted yields when the build has them
	SchedSeed    uint64   `json:"sched_seed"`
	Schedule     []Switch `json:"schedule,omitempty"` // replay: the recorded switch points
	Replay       bool     `json:"replay,omitempty"`
}

type Violation struct {
	Property string `json:"property"`
	Oracle   string `json:"oracle"`
	Format   string `json:"format,omitempty"`
	Group    string `json:"group,omitempty"` // coarse class: groups violations of one kind (dedup, minimisation, known findings)
	Class    string `json:"class,omitempty"` // detailed fault class
	Site     string `json:"site,omitempty"`
	Detail   string `json:"detail"`
	Case     *Case  `json:"case,omitempty"`
	History  []Op   `json:"history,omitempty"`
	Env      *Env07 `json:"env,omitempty"`
	LogHash  string `json:"log_hash,omitempty"`
	RaceText string `json:"race_text,omitempty"`
}

// Key used to group violations of one kind (minimisation keeps the key fixed;
// known findings match on it).
func (v *Violation) Key() string {
	g := v.Group
	if g == "" {
		g = v.Class
	}
	return v.Property + "|" + v.Oracle + "|" + v.Format + "|" + g + "|" + v.Site
}

// RunResult is what a worker reports per run.
type RunResult struct {
	Run        int              `json:"run"`
	RunSeed    uint64           `json:"run_seed"`
	Violations []Violation      `json:"violations,omitempty"`
	Scenario   *Scenario        `json:"scenario,omitempty"` // present when violations exist or sampled
	Counters   map[string]int64 `json:"counters,omitempty"`
	Distinct   []string         `json:"distinct,omitempty"` // non-trivial case signatures
	Sample     any              `json:"sample,omitempty"`
	LogHash    string           `json:"log_hash,omitempty"`
	Trouble    string           `json:"trouble,omitempty"` // harness trouble -> exit 2
	WallMs     int64            `json:"wall_ms,omitempty"`
	Notes      []string         `json:"notes,omitempty"`
}
