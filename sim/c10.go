package sim

import (
	"bytes"
	"crypto"
	"crypto/md5"
	"crypto/rsa"
	"crypto/sha1"
	"encoding/hex"
	"errors"
	"fmt"
	"io"
	"io/fs"
	"net/mail"
	"os"
	"os/exec"
	"path/filepath"
	"runtime"
	"sort"
	"strings"
	"time"

	"github.com/ProtonMail/go-crypto/openpgp"
	"github.com/ProtonMail/go-crypto/openpgp/armor"
	"github.com/ProtonMail/go-crypto/openpgp/clearsign"
	"github.com/ProtonMail/go-crypto/openpgp/packet"
	"github.com/goreleaser/nfpm/v2"
	"github.com/goreleaser/nfpm/v2/deb"
	"gopkg.in/yaml.v3"
)

// GenC10 draws one C10 scenario: a world with signing configured for deb,
// rpm and apk, and the list of fault-free and faulty cases.
func GenC10(verifSeed uint64, run int) *Scenario {
	seed := Mix(verifSeed, 10, uint64(run))
	g := NewRng(seed)
	w, cfg := GenWorldCfg(g, GenOpts{ForceSign: true, NoBigFiles: true})
	plan := &C10Plan{SrcMode: Pick(g, []string{"rel", "abs"}), GoMaxProcs: Pick(g, []int{1, 4, 16})}
	variant := func(patch func(m map[string]any)) string {
		m := cloneTree(cfg).(map[string]any)
		normalizeSig(m)
		patch(m)
		return RenderConfig(m)
	}
	keyPath := map[string]string{}
	for _, r := range w.Refs {
		if r.Kind == "key" {
			for _, f := range r.Formats {
				keyPath[f] = r.Path
			}
		}
	}
	for _, f := range []string{"deb", "rpm", "apk"} {
		// fault-free configuration of the same runs
		plan.Cases = append(plan.Cases, Case{Format: f, Class: "clean"})
		plan.Cases = append(plan.Cases, Case{Format: f, Sign: "callback", Class: "clean"})
		// signer call i fails, with different amounts of input consumed
		calls := 1
		if f == "rpm" {
			calls = 2
		}
		for i := 1; i <= calls; i++ {
			for _, rn := range []int{-1, 0, 7} {
				plan.Cases = append(plan.Cases, Case{Format: f, Sign: "callback", Class: "signer", Signer: &SignerFault{FailCall: i, ReadN: rn}})
			}
			// ... and returning some bytes together with the error
			plan.Cases = append(plan.Cases, Case{Format: f, Sign: "callback", Class: "signer", Signer: &SignerFault{FailCall: i, ReadN: -1, WithBytes: true}})
		}
		// key file faults
		for _, k := range []string{"remove", "truncate", "garbage", "empty", "dir"} {
			plan.Cases = append(plan.Cases, Case{Format: f, Class: "keyfile", Invalid: k, FS: &FSFault{Path: keyPath[f], Kind: k}})
		}
		// wrong / missing passphrase (only meaningful for protected keys)
		if w.KeyName == "pgp_b" {
			plan.Cases = append(plan.Cases, Case{Format: f, Class: "passphrase", Invalid: "wrong", Env: map[string]string{"NFPM_PASSPHRASE": "not the passphrase", "SOURCE_DATE_EPOCH": w.Env["SOURCE_DATE_EPOCH"]}})
			plan.Cases = append(plan.Cases, Case{Format: f, Class: "passphrase", Invalid: "missing", Env: map[string]string{"SOURCE_DATE_EPOCH": w.Env["SOURCE_DATE_EPOCH"]}})
		}
	}
	// key rotation: the key file is replaced in place by another key (same
	// path, same modification time, same passphrase); the next package is
	// signed by the key that is in the file when it is built, and after the
	// file is put back, by the first key again
	keyRefOf := map[string]string{}
	for _, e := range w.Tree {
		if e.KeyRef != "" {
			keyRefOf[e.Path] = e.KeyRef
		}
	}
	dropKeyID := variant(func(m map[string]any) {
		for _, f := range []string{"deb", "rpm"} {
			delete(subMap(subMap(m, f), "signature"), "key_id")
		}
	})
	for _, f := range []string{"deb", "rpm", "apk"} {
		old := keyRefOf[keyPath[f]]
		repl := map[string]string{
			"pgp_a.asc": "pgp_e.asc", "pgp_a.gpg": "pgp_e.asc", "pgp_b.asc": "pgp_c.asc", "pgp_b.gpg": "pgp_c.gpg", "pgp_c.asc": "pgp_b.asc", "pgp_c.gpg": "pgp_b.gpg",
			"rsa_a.priv": "rsa_b.priv", "rsa_a.pkcs8.priv": "rsa_b.priv", "rsa_a.enc.priv": "rsa_b.enc.priv",
		}[old]
		if repl == "" {
			continue
		}
		newKey := strings.SplitN(repl, ".", 2)[0]
		plan.Cases = append(plan.Cases,
			Case{Format: f, Class: "clean", Config: dropKeyID},
			Case{Format: f, Class: "clean", Key: newKey, Config: dropKeyID, FS: &FSFault{Path: keyPath[f], Kind: "replace", KeyRef: repl}},
			Case{Format: f, Class: "clean", Config: dropKeyID})
	}
	// invalid deb signature type (debsign method)
	for _, sign := range []string{"", "callback"} {
		plan.Cases = append(plan.Cases, Case{Format: "deb", Sign: sign, Class: "sigtype", Invalid: "bogus", Config: variant(func(m map[string]any) {
			s := subMap(subMap(m, "deb"), "signature")
			delete(s, "method")
			s["type"] = "bogus"
		})})
	}
	// dpkg-sig stores the signature in the ar member _gpg<type>: a type that
	// cannot be stored under that name (an ar member name holds 16 bytes, no
	// slash) is an invalid signature type
	for _, bad := range [][2]string{{"too-long-for-the-ar-member-name", "builder-release"}, {"contains-a-slash", "build/er"},
		// twelve letters, thirteen bytes: the ar name field counts bytes
		{"too-long-for-the-ar-member-name", "\u00fcbersetzerin"}} {
		kind, val := bad[0], bad[1]
		for _, sign := range []string{"", "callback"} {
			plan.Cases = append(plan.Cases, Case{Format: "deb", Sign: sign, Class: "sigtype", Invalid: kind, Config: variant(func(m map[string]any) {
				sg := subMap(subMap(m, "deb"), "signature")
				sg["method"] = "dpkg-sig"
				sg["type"] = val
			})})
		}
	}
	// apk key name unset and maintainer without an address
	plan.Cases = append(plan.Cases, Case{Format: "apk", Class: "apkkeyname", Invalid: "no-address", Config: variant(func(m map[string]any) {
		delete(subMap(subMap(m, "apk"), "signature"), "key_name")
		m["maintainer"] = "No Address Here"
	})})
	// key kind x key id x signature method/type matrix (fault-free): every
	// combination the documentation allows, per scenario
	matrixEnv := map[string]string{"NFPM_PASSPHRASE": KeyPass}
	if v, ok := w.Env["SOURCE_DATE_EPOCH"]; ok {
		matrixEnv["SOURCE_DATE_EPOCH"] = v
	}
	for k, v := range w.Env {
		if strings.HasPrefix(k, "VERIF_") {
			matrixEnv[k] = v
		}
	}
	// (key F: made by gpg, the primary key can only certify, a subkey signs)
	for _, key := range []string{"pgp_a", "pgp_b", "pgp_c", "pgp_f"} {
		for _, ext := range []string{".asc", ".gpg"} {
			w.Tree = append(w.Tree, TreeEntry{Path: "keys/m-" + key + ext, Kind: "file", KeyRef: key + ext, Mode: 0o600, MTime: 1500000000})
			ids := []string{"", keyID(key)}
			if key == "pgp_c" {
				ids = append(ids, keyID("pgp_c.sub"))
			}
			if key == "pgp_f" {
				ids = []string{"", keyID("pgp_f.sub")}
			}
			for _, id := range ids {
				setSig := func(s map[string]any) {
					s["key_file"] = "@SRC@keys/m-" + key + ext
					delete(s, "key_id")
					if id != "" {
						s["key_id"] = id
					}
				}
				for _, dv := range [][2]string{{"", ""}, {"", "origin"}, {"", "maint"}, {"", "archive"}, {"dpkg-sig", ""}, {"dpkg-sig", "builder"}} {
					method, typ := dv[0], dv[1]
					plan.Cases = append(plan.Cases, Case{Format: "deb", Class: "clean", Key: key, Env: matrixEnv, Config: variant(func(m map[string]any) {
						s := subMap(subMap(m, "deb"), "signature")
						setSig(s)
						delete(s, "method")
						delete(s, "type")
						if method != "" {
							s["method"] = method
						}
						if typ != "" {
							s["type"] = typ
						}
					})})
				}
				plan.Cases = append(plan.Cases, Case{Format: "rpm", Class: "clean", Key: key, Env: matrixEnv, Config: variant(func(m map[string]any) {
					setSig(subMap(subMap(m, "rpm"), "signature"))
				})})
			}
		}
	}
	// key G: made by gpg, protected, two signing subkeys: the older one is
	// still a legal choice by key id (unlocking it costs a gpg-strength S2K,
	// so only a few combinations per scenario)
	w.Tree = append(w.Tree, TreeEntry{Path: "keys/m-pgp_g.asc", Kind: "file", KeyRef: "pgp_g.asc", Mode: 0o600, MTime: 1500000000})
	// key H: another export of key G - same primary key, same passphrase, but
	// only G's older signing subkey in the file (a per-repository export, or
	// the file from before a subkey rotation). Used in the same process as G,
	// before or after it: what signs is what the configured file holds, not
	// what an earlier packaging unlocked under the same fingerprint.
	w.Tree = append(w.Tree, TreeEntry{Path: "keys/m-pgp_h.gpg", Kind: "file", KeyRef: "pgp_h.gpg", Mode: 0o600, MTime: 1500000000})
	hFirst := g.Bool(0.5)
	hCases := func() {
		setH := func(sg map[string]any) {
			sg["key_file"] = "@SRC@keys/m-pgp_h.gpg"
			delete(sg, "key_id")
			delete(sg, "method")
			delete(sg, "type")
		}
		plan.Cases = append(plan.Cases, Case{Format: "deb", Class: "clean", Key: "pgp_h", Env: matrixEnv, Config: variant(func(m map[string]any) {
			setH(subMap(subMap(m, "deb"), "signature"))
		})})
		plan.Cases = append(plan.Cases, Case{Format: "rpm", Class: "clean", Key: "pgp_h", Env: matrixEnv, Config: variant(func(m map[string]any) {
			setH(subMap(subMap(m, "rpm"), "signature"))
		})})
	}
	if hFirst {
		hCases()
	}
	for _, id := range []string{keyID("pgp_g.oldsub"), Pick(g, []string{"", keyID("pgp_g"), keyID("pgp_g.sub")})} {
		idg := id
		setG := func(sg map[string]any) {
			sg["key_file"] = "@SRC@keys/m-pgp_g.asc"
			delete(sg, "key_id")
			if idg != "" {
				sg["key_id"] = idg
			}
			delete(sg, "method")
			delete(sg, "type")
		}
		plan.Cases = append(plan.Cases, Case{Format: "deb", Class: "clean", Key: "pgp_g", Env: matrixEnv, Config: variant(func(m map[string]any) {
			setG(subMap(subMap(m, "deb"), "signature"))
		})})
		plan.Cases = append(plan.Cases, Case{Format: "deb", Class: "clean", Key: "pgp_g", Env: matrixEnv, Config: variant(func(m map[string]any) {
			sg := subMap(subMap(m, "deb"), "signature")
			setG(sg)
			sg["method"] = "dpkg-sig"
		})})
		plan.Cases = append(plan.Cases, Case{Format: "rpm", Class: "clean", Key: "pgp_g", Env: matrixEnv, Config: variant(func(m map[string]any) {
			setG(subMap(subMap(m, "rpm"), "signature"))
		})})
	}
	if !hFirst {
		hCases()
	}
	// a key id that is not a key id, and one that names no key of the file: no
	// key can be selected, signing fails (whatever the method)
	for _, bad := range [][2]string{{"not-hex", "0xDEADBEEF"}, {"not-hex", "my signing key"}, {"absent-from-key-file", "0123456789abcdef"}} {
		kind, val := bad[0], bad[1]
		for _, method := range []string{"", "dpkg-sig"} {
			m2 := method
			plan.Cases = append(plan.Cases, Case{Format: "deb", Class: "keyid", Invalid: kind, Env: matrixEnv, Config: variant(func(m map[string]any) {
				sg := subMap(subMap(m, "deb"), "signature")
				sg["key_file"] = "@SRC@keys/m-pgp_a.asc"
				sg["key_id"] = val
				delete(sg, "type")
				delete(sg, "method")
				if m2 != "" {
					sg["method"] = m2
				}
			})})
		}
		plan.Cases = append(plan.Cases, Case{Format: "rpm", Class: "keyid", Invalid: kind, Env: matrixEnv, Config: variant(func(m map[string]any) {
			sg := subMap(subMap(m, "rpm"), "signature")
			sg["key_file"] = "@SRC@keys/m-pgp_a.asc"
			sg["key_id"] = val
		})})
	}
	// apk signs with RSA keys only: a key file that holds another kind of
	// private key (PKCS#8 allows any) cannot produce an apk signature
	plan.Cases = append(plan.Cases, Case{Format: "apk", Class: "keyfile", Invalid: "not-rsa", FS: &FSFault{Path: keyPath["apk"], Kind: "replace", KeyRef: "ec_a.pkcs8.priv"}})
	// key D: a subkeys-only export (gpg --export-secret-subkeys) of the
	// unprotected key E: the primary secret key is a GNU dummy stub, only the
	// signing subkey can sign. Every method signs through the subkey (no key
	// id, or the subkey's); asking for the primary key by its id cannot work
	// and must fail loudly and typed, never yield a package (for dpkg-sig that
	// failure surfaces when the clear-signer is closed).
	w.Tree = append(w.Tree, TreeEntry{Path: "keys/m-pgp_d.asc", Kind: "file", KeyRef: "pgp_d.asc", Mode: 0o600, MTime: 1500000000})
	for _, id := range []string{"", keyID("pgp_d.sub"), keyID("pgp_d")} {
		idd := id
		class, invalid := "clean", ""
		if id == keyID("pgp_d") {
			class, invalid = "cannotsign", "primary-key-of-a-subkeys-only-file"
		}
		setD := func(s map[string]any) {
			s["key_file"] = "@SRC@keys/m-pgp_d.asc"
			delete(s, "key_id")
			if idd != "" {
				s["key_id"] = idd
			}
			delete(s, "method")
			delete(s, "type")
		}
		plan.Cases = append(plan.Cases, Case{Format: "deb", Class: class, Invalid: invalid, Key: "pgp_d", Env: matrixEnv, Config: variant(func(m map[string]any) {
			setD(subMap(subMap(m, "deb"), "signature"))
		})})
		plan.Cases = append(plan.Cases, Case{Format: "rpm", Class: class, Invalid: invalid, Key: "pgp_d", Env: matrixEnv, Config: variant(func(m map[string]any) {
			setD(subMap(subMap(m, "rpm"), "signature"))
		})})
		plan.Cases = append(plan.Cases, Case{Format: "deb", Class: class, Invalid: invalid, Key: "pgp_d", Env: matrixEnv, Config: variant(func(m map[string]any) {
			sg := subMap(subMap(m, "deb"), "signature")
			setD(sg)
			sg["method"] = "dpkg-sig"
		})})
	}
	for _, rk := range []string{"rsa_a.priv", "rsa_a.pkcs8.priv", "rsa_a.enc.priv"} {
		w.Tree = append(w.Tree, TreeEntry{Path: "keys/m-" + rk, Kind: "file", KeyRef: rk, Mode: 0o600, MTime: 1500000000})
		rkk := rk
		plan.Cases = append(plan.Cases, Case{Format: "apk", Class: "clean", Key: rk, Env: matrixEnv, Config: variant(func(m map[string]any) {
			subMap(subMap(m, "apk"), "signature")["key_file"] = "@SRC@keys/m-" + rkk
		})})
	}
	// a callback that returns binary OpenPGP packets instead of ASCII armor:
	// stored as returned, whatever its bytes look like (several builds with
	// different control data, so that the signature ends in many different bytes)
	for k := 1; k <= 8; k++ {
		plan.Cases = append(plan.Cases, Case{Format: "deb", Sign: "callback", Class: "clean", SignBinary: true, PadDesc: k})
	}
	// recovery: right after every build that is made to fail, a fault-free
	// signed build of the same format (alternating between the configured key
	// file and the callback) - what a failed build leaves behind in the process
	// must not reach the next package
	var withRecovery []Case
	for i, c := range plan.Cases {
		withRecovery = append(withRecovery, c)
		if c.Class != "clean" {
			r := Case{Format: c.Format, Class: "clean"}
			if i%2 == 0 {
				r.Sign = "callback"
				r.SignBinary = i%4 == 0
			}
			withRecovery = append(withRecovery, r)
		}
	}
	plan.Cases = withRecovery
	plan.Sweep = g.Bool(0.2)
	return &Scenario{Property: "C10", VerifSeed: verifSeed, Run: run, RunSeed: seed, World: w, C10: plan}
}

// verifyTime: signatures are created at the simulated instant; verification
// is done "later".
func verifyCfg() *packet.Config {
	// "later" = a day after the simulated instant of signing: a signature
	// dated before its key or after the verifier's clock does not verify
	t := FakeEpoch.Add(SimNow).Add(24 * time.Hour)
	return &packet.Config{Time: func() time.Time { return t }}
}

type debSigCfg struct {
	Method string
	Type   string
}

func debSigOf(cfgText string) debSigCfg {
	var m map[string]any
	yaml.Unmarshal([]byte(cfgText), &m)
	normalizeSig(m)
	d, _ := m["deb"].(map[string]any)
	s, _ := d["signature"].(map[string]any)
	out := debSigCfg{}
	if v, ok := s["method"].(string); ok {
		out.Method = v
	}
	if v, ok := s["type"].(string); ok {
		out.Type = v
	}
	return out
}

// keyIDOf: the key id configured for the format's key file ("" = none).
func keyIDOf(cfgText, format string) string {
	var m map[string]any
	yaml.Unmarshal([]byte(cfgText), &m)
	normalizeSig(m)
	d, _ := m[format].(map[string]any)
	s, _ := d["signature"].(map[string]any)
	switch v := s["key_id"].(type) {
	case string:
		return strings.ToLower(v)
	case int:
		return fmt.Sprint(v)
	}
	return ""
}

// issuerOf: the id of the key that issued an OpenPGP signature (armored or not).
func issuerOf(sig []byte) (string, bool) {
	var r io.Reader = bytes.NewReader(sig)
	if bytes.HasPrefix(bytes.TrimSpace(sig), []byte("-----BEGIN")) {
		blk, err := armor.Decode(bytes.NewReader(sig))
		if err != nil {
			return "", false
		}
		r = blk.Body
	}
	pr := packet.NewReader(r)
	for {
		p, err := pr.Next()
		if err != nil {
			return "", false
		}
		if sg, ok := p.(*packet.Signature); ok && sg.IssuerKeyId != nil {
			return fmt.Sprintf("%016x", *sg.IssuerKeyId), true
		}
	}
}

// checkIssuer: with a key id configured, the signature is issued by that key.
func checkIssuer(fail func(string, ...any), what, cfgText, format string, calls [][]byte, sig []byte) {
	want := keyIDOf(cfgText, format)
	if want == "" || calls != nil {
		return
	}
	for len(want) < 16 {
		want = "0" + want
	}
	got, ok := issuerOf(sig)
	if !ok {
		fail("%s: cannot read the issuer of the signature", what)
	} else if got != want {
		fail("%s is issued by key %s, but key id %s is configured", what, got, want)
	}
}

func apkKeyNameOf(cfgText string) string {
	var m map[string]any
	yaml.Unmarshal([]byte(cfgText), &m)
	normalizeSig(m)
	a, _ := m["apk"].(map[string]any)
	s, _ := a["signature"].(map[string]any)
	if v, ok := s["key_name"].(string); ok && v != "" {
		if !strings.HasSuffix(v, ".rsa.pub") {
			v += ".rsa.pub"
		}
		return v
	}
	return "" // derived from the maintainer address
}

// verifySigned checks the fault-free clauses for one built package. calls are
// the byte strings the simulated signer was handed (nil on the key-file path).
func verifySigned(w *World, cfgText, format string, pkg []byte, calls [][]byte, pubPGP, pubRSA string) (problems []string, verified int) {
	fail := func(f string, a ...any) { problems = append(problems, fmt.Sprintf(f, a...)) }
	keyring, err := loadPGPPublic(pubPGP)
	if err != nil {
		return []string{"harness: cannot load public key: " + err.Error()}, 0
	}
	switch format {
	case "deb":
		ms, err := parseAr(pkg)
		if err != nil {
			fail("deb is not a readable ar archive: %v", err)
			return
		}
		if len(ms) != 4 {
			fail("signed deb has %d members, want debian-binary, control, data, _gpg*", len(ms))
			return
		}
		sc := debSigOf(cfgText)
		last := ms[3]
		signed := append(append(append([]byte{}, ms[0].Data...), ms[1].Data...), ms[2].Data...)
		if sc.Method == "dpkg-sig" {
			role := sc.Type
			if role == "" {
				role = "builder"
			}
			if last.Name != "_gpg"+role {
				fail("dpkg-sig signature member is %q, want last member _gpg%s", last.Name, role)
			}
			blk, _ := clearsign.Decode(last.Data)
			if blk == nil {
				fail("dpkg-sig member is not a clear-signed message")
				return
			}
			if _, err := blk.VerifySignature(keyring, verifyCfg()); err != nil {
				fail("dpkg-sig clear signature does not verify: %v", err)
			} else {
				verified++
			}
			// (verification consumed the signature reader: decode once more)
			if b2, _ := clearsign.Decode(last.Data); b2 != nil && b2.ArmoredSignature != nil {
				if sigBytes, err := io.ReadAll(b2.ArmoredSignature.Body); err == nil {
					checkIssuer(fail, "dpkg-sig clear signature", cfgText, "deb", calls, sigBytes)
				}
			}
			if p, ran := gpgvVerify(strings.Replace(pubPGP, ".asc", ".gpg", 1), nil, last.Data); ran {
				if p != "" {
					fail("dpkg-sig clear signature does not verify: %s", p)
				} else {
					verified++
				}
			}
			// manifest lines must match the stored members
			want := map[string]arMember{}
			for _, m := range ms[:3] {
				want[m.Name] = m
			}
			nlines := 0
			for _, l := range strings.Split(string(blk.Plaintext), "\n") {
				f := strings.Fields(l)
				if len(f) != 4 || len(f[0]) != 32 || len(f[1]) != 40 {
					continue
				}
				nlines++
				m, ok := want[f[3]]
				if !ok {
					fail("dpkg-sig manifest names %q, which is not a stored member (stored: %s, %s, %s)", f[3], ms[0].Name, ms[1].Name, ms[2].Name)
					continue
				}
				m5 := md5.Sum(m.Data)
				s1 := sha1.Sum(m.Data)
				if f[0] != hex.EncodeToString(m5[:]) || f[1] != hex.EncodeToString(s1[:]) || f[2] != fmt.Sprint(len(m.Data)) {
					fail("dpkg-sig manifest line for %s does not match the stored member (md5/sha1/size)", f[3])
				}
			}
			if nlines != 3 {
				fail("dpkg-sig manifest has %d file lines, want 3", nlines)
			}
			if calls != nil {
				if len(calls) != 1 {
					fail("signing callback called %d times, want 1", len(calls))
				} else if normText(calls[0]) != normText(blk.Plaintext) {
					fail("signing callback was handed different bytes than the clear-signed manifest in the package")
				}
			}
			return
		}
		typ := sc.Type
		if typ == "" {
			typ = "origin"
		}
		if last.Name != "_gpg"+typ {
			fail("debsign signature member is %q, want last member _gpg%s", last.Name, typ)
		}
		// the member holds what the signer returned: ASCII armor (nfpm's own
		// key-file path, gpg -a) or binary packets (gpg --detach-sign)
		check := openpgp.CheckDetachedSignature
		if bytes.HasPrefix(last.Data, []byte("-----BEGIN")) {
			check = openpgp.CheckArmoredDetachedSignature
		}
		if _, err := check(keyring, bytes.NewReader(signed), bytes.NewReader(last.Data), verifyCfg()); err != nil {
			fail("debsign signature does not verify over debian-binary+control+data as stored: %v", err)
		} else {
			verified++
		}
		checkIssuer(fail, "debsign signature", cfgText, "deb", calls, last.Data)
		if p, ran := gpgvVerify(strings.Replace(pubPGP, ".asc", ".gpg", 1), signed, last.Data); ran {
			if p != "" {
				fail("debsign signature does not verify: %s", p)
			} else {
				verified++
			}
		}
		if calls != nil {
			if len(calls) != 1 {
				fail("signing callback called %d times, want 1", len(calls))
			} else if !bytes.Equal(calls[0], signed) {
				fail("signing callback was handed %d bytes that are not debian-binary+control+data as stored (%s)", len(calls[0]), firstDiff(calls[0], signed))
			}
		}
	case "rpm":
		r, err := parseRPM(pkg)
		if err != nil {
			fail("rpm is not readable: %v", err)
			return
		}
		hdr := r.Hdr.Raw
		body := pkg[r.HdrOff:]
		hs, ok1 := r.Sig.Tags[268]
		bs, ok2 := r.Sig.Tags[1002]
		if !ok1 {
			fail("rpm signature header has no header-only signature (tag 268)")
		} else if _, err := openpgp.CheckDetachedSignature(keyring, bytes.NewReader(hdr), bytes.NewReader(hs), verifyCfg()); err != nil {
			fail("rpm header-only signature does not verify over the header: %v", err)
		} else {
			verified++
		}
		if ok1 {
			checkIssuer(fail, "rpm header-only signature", cfgText, "rpm", calls, hs)
		}
		if ok2 {
			checkIssuer(fail, "rpm header+payload signature", cfgText, "rpm", calls, bs)
		}
		if !ok2 {
			fail("rpm signature header has no header+payload signature (tag 1002)")
		} else if _, err := openpgp.CheckDetachedSignature(keyring, bytes.NewReader(body), bytes.NewReader(bs), verifyCfg()); err != nil {
			fail("rpm header+payload signature does not verify over header+payload: %v", err)
		} else {
			verified++
			if p, ran := gpgvVerify(strings.Replace(pubPGP, ".asc", ".gpg", 1), body, bs); ran {
				if p != "" {
					fail("rpm header+payload signature does not verify: %s", p)
				} else {
					verified++
				}
			}
		}
		if calls != nil {
			if len(calls) != 2 {
				fail("signing callback called %d times, want 2 (header, header+payload)", len(calls))
			} else {
				a := bytes.Equal(calls[0], hdr) && bytes.Equal(calls[1], body)
				b := bytes.Equal(calls[1], hdr) && bytes.Equal(calls[0], body)
				if !a && !b {
					fail("signing callback was not handed exactly the header and header+payload bytes of the package")
				}
			}
		}
	case "apk":
		ms, err := gzipMembers(pkg)
		if err != nil || len(ms) < 3 {
			fail("signed apk is not signature+control+data gzip members (%d members, err %v)", len(ms), err)
			return
		}
		es, err := readTar(ms[0].Data)
		if err != nil || len(es) != 1 {
			fail("apk signature segment is not a one-entry tar: %v", err)
			return
		}
		wantName := apkKeyNameOf(cfgText)
		if wantName == "" {
			// documented default: <maintainer email>.rsa.pub
			var m map[string]any
			yaml.Unmarshal([]byte(cfgText), &m)
			maint, _ := m["maintainer"].(string)
			if a, err := mail.ParseAddress(maint); err == nil && a.Address != "" {
				wantName = a.Address + ".rsa.pub"
			} else if calls != nil && maint == "" {
				wantName = "verifcallback.rsa.pub" // the name the harness gives its callback signer
			}
		}
		if es[0].Name != ".SIGN.RSA."+wantName {
			fail("apk signature entry is %q, want .SIGN.RSA.%s as the first member", es[0].Name, wantName)
		}
		pub, err := loadRSAPublic(pubRSA)
		if err != nil {
			return []string{"harness: cannot load rsa public key: " + err.Error()}, 0
		}
		digest := sha1.Sum(ms[1].Raw)
		if err := rsa.VerifyPKCS1v15(pub, crypto.SHA1, digest[:], es[0].Data); err != nil {
			fail("apk signature does not verify over the control segment as shipped: %v", err)
		} else {
			verified++
		}
		if calls != nil {
			if len(calls) != 1 {
				fail("signing callback called %d times, want 1", len(calls))
			} else if !bytes.Equal(calls[0], digest[:]) {
				fail("signing callback was not handed the SHA-1 of the control segment as shipped")
			}
		}
	}
	return
}

// gpgvVerify checks a detached signature with GnuPG's gpgv, an OpenPGP
// implementation that shares no code with the one nfpm signs with. Returns
// ("", false) when gpgv is not installed.
func gpgvVerify(pubKeyring string, data, sig []byte) (problem string, ran bool) {
	gpgv, err := exec.LookPath("gpgv")
	if err != nil {
		return "", false
	}
	dir, err := os.MkdirTemp("/dev/shm", "verif-gpgv-")
	if err != nil {
		return "", false
	}
	defer os.RemoveAll(dir)
	df, sf := filepath.Join(dir, "data"), filepath.Join(dir, "data.sig")
	if os.WriteFile(df, data, 0o600) != nil || os.WriteFile(sf, sig, 0o600) != nil {
		return "", false
	}
	args := []string{"--keyring", filepath.Join(KeysDir, pubKeyring), sf, df}
	if data == nil {
		args = []string{"--keyring", filepath.Join(KeysDir, pubKeyring), sf} // clear-signed: one file
	}
	// judge by gpgv's machine-readable status, not by its exit code (it exits
	// 2 on warnings about the dpkg-sig layout although the signature is good):
	// VALIDSIG is printed only for a signature that verified, including the
	// time checks against the key and the clock
	cmd := exec.Command(gpgv, append([]string{"--status-fd", "1"}, args...)...)
	cmd.Env = []string{"GNUPGHOME=" + dir, "PATH=/usr/bin:/bin", "LC_ALL=C"}
	out, _ := cmd.CombinedOutput()
	if !strings.Contains(string(out), "[GNUPG:] VALIDSIG") {
		var keep []string
		for _, l := range strings.Split(string(out), "\n") {
			if strings.Contains(l, "radix64") || strings.TrimSpace(l) == "" {
				continue
			}
			keep = append(keep, strings.TrimSpace(l))
		}
		return "gpgv does not report a valid signature: " + strings.Join(keep, " | "), true
	}
	return "", true
}

func normText(b []byte) string {
	var ls []string
	for _, l := range strings.Split(strings.ReplaceAll(string(b), "\r\n", "\n"), "\n") {
		ls = append(ls, strings.TrimRight(l, " \t"))
	}
	return strings.TrimSpace(strings.Join(ls, "\n"))
}

// RunC10 executes a C10 scenario.
func RunC10(rt *Runtime, sc *Scenario) RunResult {
	res := RunResult{Run: sc.Run, RunSeed: sc.RunSeed, Counters: map[string]int64{}}
	elog := NewEventLog()
	w := &sc.World
	plan := sc.C10
	if err := Materialize(rt.Root, w.Tree); err != nil {
		res.Trouble = "materialize: " + err.Error()
		return res
	}
	rt.SetEnv(w.Env)
	if err := rt.SetSrcMode(plan.SrcMode); err != nil {
		res.Trouble = "chdir: " + err.Error()
		return res
	}
	if plan.GoMaxProcs > 0 {
		old := runtime.GOMAXPROCS(plan.GoMaxProcs)
		defer runtime.GOMAXPROCS(old)
	}
	seen := map[string]bool{}
	violate := func(v Violation) {
		v.Property = "C10"
		if seen[v.Key()] {
			return
		}
		seen[v.Key()] = true
		res.Violations = append(res.Violations, v)
	}
	distinct := map[string]bool{}
	for i := range plan.Cases {
		c := &plan.Cases[i]
		out := rt.ExecCase(w, c)
		if out.SetupErr != nil {
			res.Trouble = "case setup: " + out.SetupErr.Error()
			return res
		}
		res.Counters["builds"]++
		elog.Case(c, &out.Res, needsSignBubble(w, c))
		cfgText := c.Config
		if cfgText == "" {
			cfgText = w.Config
		}
		path := "keyfile"
		if c.Sign == "callback" {
			path = "callback"
		}
		ds := debSigOf(cfgText)
		sig := fmt.Sprintf("%s|%s|%s/%s|%s|%s", c.Format, path, ds.Method, ds.Type, w.KeyName, keyKind(w, c.Format))
		if c.Key != "" {
			kf := ""
			if i := strings.Index(cfgText, "keys/m-"); i >= 0 {
				kf = strings.Fields(cfgText[i:])[0]
			}
			sig = fmt.Sprintf("%s|matrix|%s/%s|%s|keyid=%v", c.Format, ds.Method, ds.Type, kf, strings.Contains(cfgText, "key_id"))
		}
		cc := *c
		if c.Class == "clean" {
			if !out.Res.OK() {
				// does the same configuration build without signing? If not,
				// the scenario is not a valid input for this format.
				un := Case{Format: c.Format, Sign: "none", Class: "clean", Config: c.Config}
				uo := rt.ExecCase(w, &un)
				res.Counters["builds"]++
				if !uo.Res.OK() {
					res.Counters["reference_failed"]++
					res.Notes = append(res.Notes, fmt.Sprintf("unsigned reference build of %s failed: %v", c.Format, scrubErr(rt, uo.Res.Err)))
					continue
				}
				violate(Violation{Oracle: "verify", Format: c.Format, Group: "signed-build-fails/" + path, Case: &cc,
					Detail: fmt.Sprintf("%s: fault-free signed build (%s) fails: parse=%v err=%v", c.Format, path, out.Res.ParseErr, scrubErr(rt, out.Res.Err))})
				continue
			}
			pub := w.KeyName + ".pub.asc"
			if strings.HasPrefix(c.Key, "pgp_") {
				pub = c.Key + ".pub.asc"
			}
			pubRSA := "rsa_a.pub"
			if strings.HasPrefix(c.Key, "rsa_b") {
				pubRSA = "rsa_b.pub"
			}
			var calls [][]byte
			if c.Sign == "callback" {
				pub = "pgp_a.pub.asc"
				calls = out.Signer.Calls
				if calls == nil {
					calls = [][]byte{}
				}
			}
			problems, verified := verifySigned(w, cfgText, c.Format, out.Res.Bytes, calls, pub, pubRSA)
			res.Counters["signatures_verified"] += int64(verified)
			if verified > 0 {
				res.Counters["probe.verified."+c.Format+"."+path]++
				distinct[sig+"|verified"] = true
			}
			for _, p := range problems {
				if strings.HasPrefix(p, "harness:") {
					res.Trouble = p
					return res
				}
				violate(Violation{Oracle: "verify", Format: c.Format, Group: problemGroup(p) + "/" + path, Case: &cc, Detail: c.Format + " (" + path + "): " + p})
			}
			continue
		}
		// faulty configuration
		class := c.Class + "." + c.Invalid
		fired := true
		if c.Class == "signer" {
			class = fmt.Sprintf("signer.call%d", c.Signer.FailCall)
			fired = out.Signer != nil && out.Signer.Failed > 0
		}
		if !fired {
			res.Counters["fault_not_reached"]++
			continue
		}
		res.Counters["fault_fired."+c.Class]++
		distinct[sig+"|"+class] = true
		err := out.Res.Err
		if out.Res.ParseErr != nil {
			err = out.Res.ParseErr
		}
		if err == nil {
			violate(Violation{Oracle: "fault-error", Format: c.Format, Group: c.Class, Class: class, Case: &cc,
				Detail: fmt.Sprintf("%s: %s fault fired but a package was reported as successfully built (%d bytes)", c.Format, class, len(out.Res.Bytes))})
			continue
		}
		var sf *nfpm.ErrSigningFailure
		if !errors.As(err, &sf) {
			violate(Violation{Oracle: "typed", Format: c.Format, Group: c.Class, Class: class, Case: &cc,
				Detail: fmt.Sprintf("%s: %s: returned error is not identifiable as a signing failure (errors.As(*nfpm.ErrSigningFailure) is false): %s", c.Format, class, scrubErr(rt, err))})
		}
		// "still wraps the signer's own error"
		switch c.Class {
		case "signer":
			if !errors.Is(err, ErrSignerSentinel) {
				violate(Violation{Oracle: "wraps", Format: c.Format, Group: c.Class, Class: class, Case: &cc,
					Detail: fmt.Sprintf("%s: %s: returned error does not wrap the signer's own error (errors.Is(err, signerErr) is false): %s", c.Format, class, scrubErr(rt, err))})
			}
		case "keyfile":
			if c.Invalid == "remove" && !errors.Is(err, fs.ErrNotExist) {
				violate(Violation{Oracle: "wraps", Format: c.Format, Group: c.Class, Class: class, Case: &cc,
					Detail: fmt.Sprintf("%s: missing key file: returned error does not wrap the underlying not-exist error: %s", c.Format, scrubErr(rt, err))})
			}
		case "sigtype":
			if !errors.Is(err, deb.ErrInvalidSignatureType) {
				violate(Violation{Oracle: "wraps", Format: c.Format, Group: c.Class, Class: class, Case: &cc,
					Detail: fmt.Sprintf("%s: invalid signature type: returned error does not wrap deb.ErrInvalidSignatureType: %s", c.Format, scrubErr(rt, err))})
			}
		}
	}
	// metadata-length sweep: every residue of the control data's length
	// modulo the format's block size is visited (apk: 512-byte tar blocks;
	// rpm: 8-byte header alignment; deb: 2-byte ar alignment), signing through
	// the deterministic callback so that the callback-bytes clause is checked too
	if plan.Sweep && res.Trouble == "" {
		for _, sw := range []struct {
			f string
			n int
		}{{"apk", 512}, {"rpm", 16}, {"deb", 4}} {
			for k := 1; k <= sw.n; k++ {
				c := Case{Format: sw.f, Sign: "callback", Class: "clean", PadDesc: k}
				out := rt.ExecCase(w, &c)
				res.Counters["builds"]++
				if out.SetupErr != nil || !out.Res.OK() {
					res.Counters["sweep_build_failed"]++
					continue
				}
				cfgText := padDescription(w.Config, k)
				problems, verified := verifySigned(w, cfgText, sw.f, out.Res.Bytes, out.Signer.Calls, "pgp_a.pub.asc", "rsa_a.pub")
				res.Counters["signatures_verified"] += int64(verified)
				res.Counters["probe.sweep_builds."+sw.f]++
				for _, p := range problems {
					cc := c
					violate(Violation{Oracle: "verify", Format: sw.f, Group: problemGroup(p) + "/callback", Case: &cc, Detail: fmt.Sprintf("%s (callback, description lengthened by %d bytes): %s", sw.f, k, p)})
				}
			}
		}
		distinct["sweep|"+w.KeyName] = true
	}
	for k := range distinct {
		res.Distinct = append(res.Distinct, k)
	}
	sort.Strings(res.Distinct)
	res.LogHash = elog.Sum()
	res.Sample = map[string]any{"run": sc.Run, "features": w.Features, "key": w.KeyName, "deb_signature": debSigOf(w.Config), "cases": len(plan.Cases), "example_case": plan.Cases[len(plan.Cases)/2]}
	return res
}

func problemGroup(p string) string {
	switch {
	case strings.Contains(p, "signature entry is") || strings.Contains(p, "signature member is"):
		return "signature-placement"
	case strings.Contains(p, "is issued by key"):
		return "issued-by-another-key"
	case strings.Contains(p, "signing callback"):
		return "callback-bytes"
	case strings.Contains(p, "does not verify"):
		return "signature-does-not-verify"
	case strings.Contains(p, "manifest"):
		return "dpkg-sig-manifest"
	case strings.Contains(p, "member") || strings.Contains(p, "entry") || strings.Contains(p, "tag"):
		return "signature-placement"
	}
	return "other"
}

func keyKind(w *World, format string) string {
	for _, e := range w.Tree {
		if e.KeyRef == "" {
			continue
		}
		if format == "apk" && strings.HasPrefix(e.KeyRef, "rsa") {
			return e.KeyRef
		}
		if format != "apk" && strings.HasPrefix(e.KeyRef, "pgp") {
			k := e.KeyRef
			if strings.Contains(w.Config, "key_id") {
				k += "+keyid"
			}
			return k
		}
	}
	return "?"
}

func scrubErr(rt *Runtime, err error) string {
	if err == nil {
		return "<nil>"
	}
	return scrub(rt, err.Error())
}
