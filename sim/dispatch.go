package sim

// GenScenario: PRNG -> Scenario, per property.
func GenScenario(prop string, verifSeed uint64, run int) *Scenario {
	switch prop {
	case "C06":
		return GenC06(verifSeed, run)
	case "C07":
		return GenC07(verifSeed, run)
	case "C10":
		return GenC10(verifSeed, run)
	case "C11":
		return GenC11(verifSeed, run)
	case "C12":
		return GenC12(verifSeed, run)
	}
	return nil
}

// RunScenario: Scenario -> (event log, verdict), per property.
func RunScenario(rt *Runtime, sc *Scenario) RunResult {
	switch sc.Property {
	case "C06":
		return RunC06(rt, sc)
	case "C07":
		return RunC07(rt, sc)
	case "C10":
		return RunC10(rt, sc)
	case "C11":
		return RunC11(rt, sc)
	case "C12":
		return RunC12(rt, sc)
	}
	return RunResult{Run: sc.Run, Trouble: "unknown property " + sc.Property}
}
