//go:build verifinstr

package sim

import (
	"github.com/goreleaser/nfpm/v2/simyield"
)

// Built only against an ast-instrumented scratch copy of nfpm (thorough tier
// of C12): every simyield.Here site becomes a yield point for client
// goroutines. Other goroutines (controller, pgzip/zstd workers) pass through.

const instrAvailable = true

var (
	instrBaton *Baton
	instrGIDs  [16]uint64
	instrN     int
)

//go:norace
func instrRegister(id int) {
	instrGIDs[id] = curGID()
}

//go:norace
func instrHook(site int) {
	b := instrBaton
	if b == nil {
		return
	}
	gid := curGID()
	for i := 0; i < instrN; i++ {
		if instrGIDs[i] == gid {
			if site < 0 {
				b.YieldCode(i, siteRelease)
			} else {
				b.YieldCode(i, siteInstr)
			}
			return
		}
	}
}

func instrStart(b *Baton, n int) {
	instrBaton = b
	instrN = n
	for i := range instrGIDs {
		instrGIDs[i] = 0
	}
	simyield.Hook = instrHook
}

func instrStop() {
	simyield.Hook = nil
	instrBaton = nil
}
