package sim

import (
	"bytes"
	"fmt"
	"runtime"
	"strings"

	"gopkg.in/yaml.v3"
)

func contains(xs []string, s string) bool {
	for _, x := range xs {
		if x == s {
			return true
		}
	}
	return false
}

func signable(format string) bool { return format == "deb" || format == "rpm" || format == "apk" }

// signerKind tells which byte stream the simulated signer has to sign.
func signerKind(w *World, format string, cfgText string) string {
	switch format {
	case "rpm":
		return "rpm"
	case "apk":
		return "apk"
	}
	if strings.Contains(cfgText, "method: dpkg-sig") {
		return "dpkg-sig"
	}
	return "debsign"
}

// needsSignBubble: nfpm's own key-file path stamps OpenPGP signatures with
// time.Now(); such builds run under the fake clock so that they stay a
// function of the input.
func needsSignBubble(w *World, c *Case) bool {
	return c.Sign == "" && contains(w.Signed, c.Format) && (c.Format == "deb" || c.Format == "rpm")
}

type CaseOutcome struct {
	Res      BuildResult
	Signer   *SimSigner
	Leaked   bool
	SetupErr error
}

// ExecCase runs one (possibly faulty) build of the world.
func (rt *Runtime) ExecCase(w *World, c *Case) (out CaseOutcome) {
	if c.FS != nil {
		restore, err := ApplyFSFault(rt.Root, w.Tree, c.FS)
		defer func() {
			if rerr := restore(); rerr != nil && out.SetupErr == nil {
				out.SetupErr = fmt.Errorf("restore after fs fault: %w", rerr)
			}
		}()
		if err != nil {
			out.SetupErr = fmt.Errorf("apply fs fault: %w", err)
			return out
		}
	}
	if c.Env != nil {
		rt.SetEnv(c.Env)
		defer rt.SetEnv(w.Env)
	}
	if c.GoMaxPro > 0 {
		old := runtime.GOMAXPROCS(c.GoMaxPro)
		defer runtime.GOMAXPROCS(old)
	}
	cfgText := c.Config
	if cfgText == "" {
		cfgText = w.Config
	}
	if c.PadDesc > 0 {
		cfgText = padDescription(cfgText, c.PadDesc)
	}
	o := BuildOpts{Format: c.Format, Config: cfgText, Fault: c.Sink, NoSign: c.Sign == "none"}
	if c.Sign == "callback" {
		s := NewSimSigner(signerKind(w, c.Format, cfgText), c.Signer)
		s.Binary = c.SignBinary
		if err := s.Prepare(); err != nil {
			out.SetupErr = fmt.Errorf("signer: %w", err)
			return out
		}
		o.Signer = s
		out.Signer = s
	}
	// Every build runs at the same simulated instant: packages whose mtime is
	// not fixed, and signatures made by nfpm's own key-file path, read the
	// clock, and the reference model must be a function of the input.
	if c.FS != nil && c.FS.Kind == "unreadable" {
		out.Leaked = rt.InBubble(SimNow, func() {
			if !WithoutFilePrivileges(func() { out.Res = rt.Build(w, o) }) {
				out.SetupErr = fmt.Errorf("cannot drop file capabilities")
			}
		})
		return out
	}
	out.Leaked = rt.InBubble(SimNow, func() { out.Res = rt.Build(w, o) })
	return out
}

// RefInfo is the reference model's answer F for one (world, format, signing
// variant), plus what is needed to compare against it.
type RefInfo struct {
	F      []byte
	Trace  []int
	Stable bool // two reference builds (different GOMAXPROCS) agreed
	// KeyFileSigned: signed through nfpm's key-file path; salted signatures,
	// no byte oracle (Stable stays false, which is not an instability).
	KeyFileSigned bool
	Signer        *SimSigner
	Notes         []string
	Builds        int
}

// Match reports whether b equals the reference bytes.
func (r *RefInfo) Match(b []byte) bool { return bytes.Equal(b, r.F) }

func diffSpan(a, b []byte) (lo, hi int) {
	n := len(a)
	lo = 0
	for lo < n && a[lo] == b[lo] {
		lo++
	}
	if lo == n {
		return 0, 0
	}
	hi = n
	for hi > lo && a[hi-1] == b[hi-1] {
		hi--
	}
	return lo, hi
}

// Reference computes F. ok=false means the fault-free build itself failed or
// could not be set up (err tells which).
func (rt *Runtime) Reference(w *World, format, sign, cfg string, gmp int) (ref *RefInfo, ok bool, setupErr error) {
	ref = &RefInfo{}
	c := Case{Format: format, Sign: sign, Class: "clean", Config: cfg}
	o1 := rt.ExecCase(w, &c)
	ref.Builds++
	if o1.SetupErr != nil {
		return ref, false, o1.SetupErr
	}
	if !o1.Res.OK() {
		ref.Notes = append(ref.Notes, fmt.Sprintf("reference build failed: %s/%s: parse=%v err=%v", format, sign, o1.Res.ParseErr, o1.Res.Err))
		return ref, false, nil
	}
	ref.F, ref.Trace, ref.Signer = o1.Res.Bytes, o1.Res.Trace, o1.Signer
	other := 1
	if gmp == 1 {
		other = 4
	}
	c2 := c
	c2.GoMaxPro = other
	o2 := rt.ExecCase(w, &c2)
	ref.Builds++
	if !o2.Res.OK() {
		ref.Notes = append(ref.Notes, fmt.Sprintf("second reference build failed: %s/%s: %v", format, sign, o2.Res.Err))
		return ref, true, nil
	}
	if needsSignBubble(w, &c) {
		// nfpm's key-file path makes OpenPGP signatures that the library salts
		// (and whose length varies by a few bytes): such packages are not a
		// function of the input, so there is no byte oracle for them. The same
		// scenario's callback-signed variant (deterministic simulated signer)
		// carries the byte oracle for signed packages.
		ref.KeyFileSigned = true
		return ref, true, nil
	}
	ref.Stable = bytes.Equal(ref.F, o2.Res.Bytes)
	if !ref.Stable {
		ref.Notes = append(ref.Notes, fmt.Sprintf("unstable reference %s/%s: %s (reported by C07; byte oracle skipped here)", format, sign, firstDiff(ref.F, o2.Res.Bytes)))
	}
	return ref, true, nil
}

// padDescription lengthens the description by n bytes: sweeping n moves every
// later structure of the package across its block / alignment boundaries.
func padDescription(cfgText string, n int) string {
	var m map[string]any
	if err := yaml.Unmarshal([]byte(cfgText), &m); err != nil {
		return cfgText
	}
	d, _ := m["description"].(string)
	if d == "" {
		d = "padded"
	}
	first, rest, _ := strings.Cut(d, "\n")
	first += " " + strings.Repeat("x", n-1)
	if rest != "" {
		first += "\n" + rest
	}
	m["description"] = first
	return RenderConfig(m)
}

func siteOf(trace []int, k int) string {
	if k > 0 && k < len(trace) && trace[k] == 1 && trace[k-1]%2 == 1 {
		return "pad_after_odd"
	}
	switch {
	case k == 0:
		return "first"
	case k == len(trace)-1:
		return "last"
	}
	return "mid"
}

func wBucket(w int) string {
	switch {
	case w <= 1:
		return "1"
	case w <= 3:
		return "2-3"
	case w <= 6:
		return "4-6"
	case w <= 12:
		return "7-12"
	case w <= 40:
		return "13-40"
	}
	return "40+"
}

func compOf(w *World, format string) string {
	pre := ""
	switch format {
	case "deb":
		pre = "debc:"
	case "rpm":
		pre = "rpmc:"
	default:
		return ""
	}
	for _, f := range w.Features {
		if strings.HasPrefix(f, pre) {
			return strings.TrimPrefix(f, pre)
		}
	}
	return "default"
}

func sinkClass(f *SinkFault) string {
	p := "transient"
	if f.Persistent {
		p = "persistent"
	}
	return "sink." + p + "." + f.Kind
}

// firstDiff describes where two byte strings differ.
func firstDiff(a, b []byte) string {
	if bytes.Equal(a, b) {
		return "equal"
	}
	n := len(a)
	if len(b) < n {
		n = len(b)
	}
	i := 0
	for i < n && a[i] == b[i] {
		i++
	}
	return fmt.Sprintf("len %d vs %d, first difference at byte %d", len(a), len(b), i)
}
