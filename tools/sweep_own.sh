#!/bin/bash
# sweep_own.sh [ids...] : every seeded change against the quick check of the
# property it breaks, on scratch worktrees (never /repo). One line per change.
HOME_DIR=$(cd "$(dirname "$0")/.." && pwd -P) || exit 2
cd "$HOME_DIR" || exit 2
IDS=${@:-$(ls seeded | grep '^S')}
for id in $IDS; do
  p=$(echo $id | sed -E 's/^S[0-9]+-(C[0-9]+)-.*/\1/')
  wt=/tmp/sweepown-$id
  git -C /repo worktree remove --force $wt 2>/dev/null
  git -C /repo worktree add -q --detach $wt HEAD || continue
  if ! git -C $wt apply "$HOME_DIR/seeded/$id/patch.diff" 2>/dev/null; then echo "$id $p: patch does not apply"; git -C /repo worktree remove --force $wt; continue; fi
  out=$(VERIF_REPO=$wt bin/check $p --no-evidence --no-minimise 2>&1); rc=$?
  keys=$(echo "$out" | grep -E "^violation:" | sed -E 's/^violation: ([^ ]+( <-> [^ ]+)?).*/\1/' | cut -c1-90 | sort -u | head -4 | tr '\n' ';')
  echo "$id $p exit=$rc $keys"
  git -C /repo worktree remove --force $wt
  rm -f "$HOME_DIR"/replays/C*.json
done
