package sim

import (
	"crypto/sha256"
	"encoding/hex"
	"encoding/json"
	"fmt"
	"hash"
)

// EventLog is the run's recorded history reduced to a hash: two runs of one
// seed must produce the same sum (determinism self-test, replay check).
// Logging never draws from the PRNG and never reads a clock.
type EventLog struct {
	h hash.Hash
	n int
}

func NewEventLog() *EventLog { return &EventLog{h: sha256.New()} }

func (e *EventLog) Add(format string, args ...any) {
	fmt.Fprintf(e.h, format, args...)
	e.h.Write([]byte{'\n'})
	e.n++
}

// Case logs a build: the case, whether it failed, and the bytes the sink got.
// Error texts are not logged (they contain the per-process scratch path).
func (e *EventLog) Case(c *Case, r *BuildResult, volatile bool) {
	cj, _ := json.Marshal(c)
	if volatile {
		// signed through nfpm's key-file path: salted signatures make bytes,
		// lengths and write sizes differ from build to build
		e.Add("case %s parse_failed=%v failed=%v fired=%d (key-file signed: bytes not logged)", cj, r.ParseErr != nil, r.Err != nil, r.Fired)
		return
	}
	sum := sha256.Sum256(r.Bytes)
	e.Add("case %s parse_failed=%v failed=%v fired=%d trace=%v bytes=%d sha=%x", cj, r.ParseErr != nil, r.Err != nil, r.Fired, r.Trace, len(r.Bytes), sum[:8])
}

func (e *EventLog) Sum() string { return hex.EncodeToString(e.h.Sum(nil))[:32] }
