package sim

import (
	"archive/tar"
	"bytes"
	"compress/gzip"
	"encoding/binary"
	"errors"
	"fmt"
	"io"
	"strconv"
	"strings"

	"github.com/klauspost/compress/zstd"
	"github.com/ulikunitz/xz"
	"github.com/ulikunitz/xz/lzma"
)

// Harness-owned readers of the package formats. They share no code with
// nfpm's writers (stdlib tar/gzip readers, own ar/rpm/cpio parsing).

type Stamp struct {
	Where string
	T     int64
}

type arMember struct {
	Name  string
	MTime int64
	Data  []byte
	Off   int // offset of the member header
}

func parseAr(b []byte) ([]arMember, error) {
	if !bytes.HasPrefix(b, []byte("!<arch>\n")) {
		return nil, errors.New("ar: bad magic")
	}
	var out []arMember
	off := 8
	for off < len(b) {
		if off+60 > len(b) {
			return nil, fmt.Errorf("ar: truncated header at %d", off)
		}
		h := b[off : off+60]
		if h[58] != '`' || h[59] != '\n' {
			return nil, fmt.Errorf("ar: bad header terminator at %d", off)
		}
		name := strings.TrimRight(string(h[0:16]), " ")
		name = strings.TrimSuffix(name, "/")
		mt, err := strconv.ParseInt(strings.TrimSpace(string(h[16:28])), 10, 64)
		if err != nil {
			return nil, fmt.Errorf("ar: mtime of %s: %w", name, err)
		}
		size, err := strconv.Atoi(strings.TrimSpace(string(h[48:58])))
		if err != nil {
			return nil, fmt.Errorf("ar: size of %s: %w", name, err)
		}
		if off+60+size > len(b) {
			return nil, fmt.Errorf("ar: member %s exceeds archive", name)
		}
		out = append(out, arMember{Name: name, MTime: mt, Data: b[off+60 : off+60+size], Off: off})
		off += 60 + size
		if off%2 == 1 {
			off++
		}
	}
	return out, nil
}

// gzipMembers splits a concatenation of gzip members, returning for each its
// header MTIME and decompressed content.
type gzMember struct {
	MTime int64
	Data  []byte
	Raw   []byte // the compressed member as stored
}

func gzipMembers(b []byte) ([]gzMember, error) {
	var out []gzMember
	br := bytes.NewReader(b)
	for br.Len() > 0 {
		start := len(b) - br.Len()
		zr, err := gzip.NewReader(br)
		if err != nil {
			return out, fmt.Errorf("gzip member %d: %w", len(out), err)
		}
		zr.Multistream(false)
		data, err := io.ReadAll(zr)
		if err != nil {
			return out, fmt.Errorf("gzip member %d: %w", len(out), err)
		}
		var mt int64
		if !zr.ModTime.IsZero() {
			mt = zr.ModTime.Unix()
		}
		end := len(b) - br.Len()
		out = append(out, gzMember{MTime: mt, Data: data, Raw: b[start:end]})
		zr.Close()
	}
	return out, nil
}

type tarEntry struct {
	Name  string
	ATime int64 // PAX/GNU access time, 0 when absent
	CTime int64 // PAX/GNU change time, 0 when absent
	MTime int64
	Data  []byte
	Type  byte
}

// readTar reads a tar stream; cut=true tolerates a missing end-of-archive
// marker (apk control segments).
func readTar(b []byte) ([]tarEntry, error) {
	var out []tarEntry
	tr := tar.NewReader(bytes.NewReader(b))
	for {
		h, err := tr.Next()
		if err == io.EOF || errors.Is(err, io.ErrUnexpectedEOF) && len(out) > 0 {
			return out, nil
		}
		if err != nil {
			return out, err
		}
		data, err := io.ReadAll(tr)
		if err != nil {
			return out, err
		}
		var mt int64
		if !h.ModTime.IsZero() {
			mt = h.ModTime.Unix()
		}
		e := tarEntry{Name: h.Name, MTime: mt, Data: data, Type: h.Typeflag}
		if !h.AccessTime.IsZero() {
			e.ATime = h.AccessTime.Unix()
		}
		if !h.ChangeTime.IsZero() {
			e.CTime = h.ChangeTime.Unix()
		}
		out = append(out, e)
	}
}

func decompress(name string, b []byte) ([]byte, []Stamp, error) {
	switch {
	case strings.HasSuffix(name, ".gz"):
		ms, err := gzipMembers(b)
		if err != nil {
			return nil, nil, err
		}
		var all []byte
		var st []Stamp
		for i, m := range ms {
			all = append(all, m.Data...)
			st = append(st, Stamp{Where: fmt.Sprintf("%s gzip header #%d", name, i), T: m.MTime})
		}
		return all, st, nil
	case strings.HasSuffix(name, ".xz"):
		r, err := xz.NewReader(bytes.NewReader(b))
		if err != nil {
			return nil, nil, err
		}
		d, err := io.ReadAll(r)
		return d, nil, err
	case strings.HasSuffix(name, ".lzma"):
		r, err := lzma.NewReader(bytes.NewReader(b))
		if err != nil {
			return nil, nil, err
		}
		d, err := io.ReadAll(r)
		return d, nil, err
	case strings.HasSuffix(name, ".zst"):
		r, err := zstd.NewReader(bytes.NewReader(b), zstd.WithDecoderConcurrency(1))
		if err != nil {
			return nil, nil, err
		}
		defer r.Close()
		d, err := io.ReadAll(r)
		return d, nil, err
	}
	return b, nil, nil
}

func tarStamps(prefix string, b []byte) ([]Stamp, []tarEntry, error) {
	es, err := readTar(b)
	if err != nil {
		return nil, nil, fmt.Errorf("%s: %w", prefix, err)
	}
	var st []Stamp
	for _, e := range es {
		// PAX global/extended headers are consumed by the reader
		st = append(st, Stamp{Where: prefix + ":" + e.Name, T: e.MTime})
		if e.ATime != 0 {
			st = append(st, Stamp{Where: prefix + ":" + e.Name + " (atime)", T: e.ATime})
		}
		if e.CTime != 0 {
			st = append(st, Stamp{Where: prefix + ":" + e.Name + " (ctime)", T: e.CTime})
		}
		if strings.HasSuffix(e.Name, ".gz") && len(e.Data) > 10 && e.Data[0] == 0x1f && e.Data[1] == 0x8b {
			if ms, err := gzipMembers(e.Data); err == nil {
				for i, m := range ms {
					st = append(st, Stamp{Where: fmt.Sprintf("%s:%s gzip header #%d", prefix, e.Name, i), T: m.MTime})
				}
			}
		}
	}
	return st, es, nil
}

// rpm -----------------------------------------------------------------------

type rpmHeader struct {
	Tags map[int][]byte // raw data per tag
	Type map[int]int
	Cnt  map[int]int
	End  int // offset just after this header
	Raw  []byte
}

func parseRPMHeader(b []byte, off int) (*rpmHeader, error) {
	if off+16 > len(b) || !bytes.Equal(b[off:off+3], []byte{0x8e, 0xad, 0xe8}) {
		return nil, fmt.Errorf("rpm: bad header magic at %d", off)
	}
	n := int(binary.BigEndian.Uint32(b[off+8:]))
	hsize := int(binary.BigEndian.Uint32(b[off+12:]))
	idx := off + 16
	store := idx + 16*n
	if store+hsize > len(b) {
		return nil, errors.New("rpm: header exceeds file")
	}
	h := &rpmHeader{Tags: map[int][]byte{}, Type: map[int]int{}, Cnt: map[int]int{}, End: store + hsize, Raw: b[off : store+hsize]}
	type ent struct{ tag, typ, off, cnt int }
	ents := make([]ent, n)
	for i := 0; i < n; i++ {
		e := b[idx+16*i:]
		ents[i] = ent{int(binary.BigEndian.Uint32(e)), int(binary.BigEndian.Uint32(e[4:])), int(binary.BigEndian.Uint32(e[8:])), int(binary.BigEndian.Uint32(e[12:]))}
	}
	for _, e := range ents {
		if e.off > hsize {
			return nil, errors.New("rpm: tag offset beyond store")
		}
		data := b[store+e.off : store+hsize]
		var ln int
		switch e.typ {
		case 2, 1: // int8, char
			ln = e.cnt
		case 3:
			ln = 2 * e.cnt
		case 4:
			ln = 4 * e.cnt
		case 5:
			ln = 8 * e.cnt
		case 7: // bin
			ln = e.cnt
		case 6, 8, 9: // string(s)
			c := e.cnt
			if e.typ == 6 {
				c = 1
			}
			p := 0
			for i := 0; i < c && p < len(data); i++ {
				j := bytes.IndexByte(data[p:], 0)
				if j < 0 {
					break
				}
				p += j + 1
			}
			ln = p
		}
		if ln > len(data) {
			ln = len(data)
		}
		h.Tags[e.tag] = data[:ln]
		h.Type[e.tag] = e.typ
		h.Cnt[e.tag] = e.cnt
	}
	return h, nil
}

type rpmFile struct {
	Lead    []byte
	Sig     *rpmHeader
	Hdr     *rpmHeader
	HdrOff  int
	Payload []byte
}

func parseRPM(b []byte) (*rpmFile, error) {
	if len(b) < 96 || !bytes.Equal(b[:4], []byte{0xed, 0xab, 0xee, 0xdb}) {
		return nil, errors.New("rpm: bad lead")
	}
	sig, err := parseRPMHeader(b, 96)
	if err != nil {
		return nil, fmt.Errorf("signature header: %w", err)
	}
	off := sig.End
	if off%8 != 0 {
		off += 8 - off%8
	}
	hdr, err := parseRPMHeader(b, off)
	if err != nil {
		return nil, fmt.Errorf("main header: %w", err)
	}
	return &rpmFile{Lead: b[:96], Sig: sig, Hdr: hdr, HdrOff: off, Payload: b[hdr.End:]}, nil
}

func (h *rpmHeader) int32s(tag int) []int64 {
	d := h.Tags[tag]
	var out []int64
	for i := 0; i+4 <= len(d); i += 4 {
		out = append(out, int64(binary.BigEndian.Uint32(d[i:])))
	}
	return out
}

func (h *rpmHeader) str(tag int) string {
	d := h.Tags[tag]
	if i := bytes.IndexByte(d, 0); i >= 0 {
		return string(d[:i])
	}
	return string(d)
}

type cpioEntry struct {
	Name  string
	MTime int64
	Size  int
}

func parseCpio(b []byte) ([]cpioEntry, error) {
	var out []cpioEntry
	off := 0
	for {
		if off+110 > len(b) {
			return out, errors.New("cpio: truncated")
		}
		h := b[off : off+110]
		if string(h[:6]) != "070701" && string(h[:6]) != "070702" {
			return out, fmt.Errorf("cpio: bad magic at %d", off)
		}
		field := func(i int) int64 {
			v, _ := strconv.ParseInt(string(h[6+8*i:6+8*i+8]), 16, 64)
			return v
		}
		mtime, fsize, nsize := field(5), int(field(6)), int(field(11))
		nameStart := off + 110
		if nameStart+nsize > len(b) {
			return out, errors.New("cpio: name exceeds archive")
		}
		name := strings.TrimRight(string(b[nameStart:nameStart+nsize]), "\x00")
		off = nameStart + nsize
		if off%4 != 0 {
			off += 4 - off%4
		}
		if name == "TRAILER!!!" {
			return out, nil
		}
		out = append(out, cpioEntry{Name: name, MTime: mtime, Size: fsize})
		off += fsize
		if off%4 != 0 {
			off += 4 - off%4
		}
	}
}

// ExtractStamps returns every timestamp stored anywhere in the package.
func ExtractStamps(format string, b []byte) ([]Stamp, error) {
	var st []Stamp
	switch format {
	case "deb":
		ms, err := parseAr(b)
		if err != nil {
			return nil, err
		}
		for _, m := range ms {
			st = append(st, Stamp{Where: "ar:" + m.Name, T: m.MTime})
			if strings.Contains(m.Name, ".tar") {
				d, gs, err := decompress(m.Name, m.Data)
				if err != nil {
					return nil, fmt.Errorf("%s: %w", m.Name, err)
				}
				st = append(st, gs...)
				ts, _, err := tarStamps(m.Name, d)
				if err != nil {
					return nil, err
				}
				st = append(st, ts...)
			}
		}
	case "ipk":
		d, gs, err := decompress("ipk.gz", b)
		if err != nil {
			return nil, err
		}
		st = append(st, gs...)
		ts, es, err := tarStamps("ipk", d)
		if err != nil {
			return nil, err
		}
		st = append(st, ts...)
		for _, e := range es {
			if strings.HasSuffix(e.Name, ".tar.gz") {
				id, igs, err := decompress(e.Name, e.Data)
				if err != nil {
					return nil, err
				}
				// the gzip header of inner members was already added by tarStamps
				_ = igs
				its, _, err := tarStamps(e.Name, id)
				if err != nil {
					return nil, err
				}
				st = append(st, its...)
			}
		}
	case "apk":
		ms, err := gzipMembers(b)
		if err != nil {
			return nil, err
		}
		var all []byte
		for i, m := range ms {
			st = append(st, Stamp{Where: fmt.Sprintf("apk gzip header #%d", i), T: m.MTime})
			all = append(all, m.Data...)
		}
		// the concatenated segments form one tar stream (cut segments carry no
		// end-of-archive marker)
		ts, _, err := tarStamps("apk", all)
		if err != nil {
			return nil, err
		}
		st = append(st, ts...)
	case "archlinux":
		d, _, err := decompress("pkg.tar.zst", b)
		if err != nil {
			return nil, err
		}
		ts, es, err := tarStamps("pkg", d)
		if err != nil {
			return nil, err
		}
		st = append(st, ts...)
		for _, e := range es {
			switch e.Name {
			case ".PKGINFO":
				for _, l := range strings.Split(string(e.Data), "\n") {
					if v, ok := strings.CutPrefix(l, "builddate = "); ok {
						n, err := strconv.ParseInt(strings.TrimSpace(v), 10, 64)
						if err != nil {
							return nil, fmt.Errorf(".PKGINFO builddate: %w", err)
						}
						st = append(st, Stamp{Where: ".PKGINFO builddate", T: n})
					}
				}
			case ".MTREE":
				md, gs, err := decompress(".MTREE.gz", e.Data)
				if err != nil {
					return nil, fmt.Errorf(".MTREE: %w", err)
				}
				st = append(st, gs...)
				for _, l := range strings.Split(string(md), "\n") {
					for _, f := range strings.Fields(l) {
						if v, ok := strings.CutPrefix(f, "time="); ok {
							if i := strings.IndexByte(v, '.'); i >= 0 {
								v = v[:i]
							}
							n, err := strconv.ParseInt(v, 10, 64)
							if err != nil {
								return nil, fmt.Errorf(".MTREE time: %w", err)
							}
							st = append(st, Stamp{Where: ".MTREE " + strings.Fields(l)[0], T: n})
						}
					}
				}
			}
		}
	case "rpm":
		r, err := parseRPM(b)
		if err != nil {
			return nil, err
		}
		for _, t := range r.Hdr.int32s(1006) {
			st = append(st, Stamp{Where: "rpm BUILDTIME", T: t})
		}
		for i, t := range r.Hdr.int32s(1034) {
			st = append(st, Stamp{Where: fmt.Sprintf("rpm FILEMTIMES[%d]", i), T: t})
		}
		comp := r.Hdr.str(1125)
		ext := map[string]string{"gzip": ".gz", "xz": ".xz", "lzma": ".lzma", "zstd": ".zst"}[comp]
		pd, gs, err := decompress("payload"+ext, r.Payload)
		if err != nil {
			return nil, fmt.Errorf("rpm payload (%s): %w", comp, err)
		}
		st = append(st, gs...)
		ces, err := parseCpio(pd)
		if err != nil {
			return nil, err
		}
		for _, e := range ces {
			st = append(st, Stamp{Where: "rpm cpio:" + e.Name, T: e.MTime})
		}
	default:
		return nil, fmt.Errorf("unknown format %s", format)
	}
	return st, nil
}
