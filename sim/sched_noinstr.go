//go:build !verifinstr

package sim

const instrAvailable = false

func instrRegister(id int)       {}
func instrStart(b *Baton, n int) {}
func instrStop()                 {}
