package sim

import (
	"bufio"
	"encoding/json"
	"fmt"
	"os"
	"path/filepath"
	"testing"
	"time"
)

// WorkerArgs is passed in the VERIF_WORKER environment variable.
type WorkerArgs struct {
	Mode      string            `json:"mode"` // explore | run | gen
	Property  string            `json:"property"`
	VerifSeed uint64            `json:"verif_seed"`
	From      int               `json:"from"`
	To        int               `json:"to"`
	Stride    int               `json:"stride"`
	Offset    int               `json:"offset"`
	Out       string            `json:"out"`
	Root      string            `json:"root"`
	Scenario  string            `json:"scenario"`
	Tier      string            `json:"tier"`
	Samples   int               `json:"samples"`
	Extra     map[string]string `json:"extra,omitempty"`
}

func genScenario(a *WorkerArgs, run int) *Scenario {
	return GenScenario(a.Property, a.VerifSeed, run)
}

func runScenario(rt *Runtime, sc *Scenario) RunResult {
	return RunScenario(rt, sc)
}

func TestWorker(t *testing.T) {
	raw := os.Getenv("VERIF_WORKER")
	if raw == "" {
		t.Skip("VERIF_WORKER not set")
	}
	var a WorkerArgs
	if err := json.Unmarshal([]byte(raw), &a); err != nil {
		t.Fatalf("bad VERIF_WORKER: %v", err)
	}
	if a.Root == "" {
		a.Root = filepath.Join("/dev/shm", fmt.Sprintf("verif-%d", os.Getpid()), "root")
	}
	defer os.RemoveAll(a.Root)
	rt := NewRuntime(a.Root, t)
	rt.Extra = a.Extra
	out := os.Stdout
	if a.Out != "" {
		f, err := os.Create(a.Out)
		if err != nil {
			t.Fatal(err)
		}
		defer f.Close()
		out = f
	}
	bw := bufio.NewWriter(out)
	defer bw.Flush()
	emit := func(r *RunResult) {
		b, err := json.Marshal(r)
		if err != nil {
			t.Fatal(err)
		}
		bw.Write(b)
		bw.WriteByte('\n')
		bw.Flush()
	}
	switch a.Mode {
	case "run":
		b, err := os.ReadFile(a.Scenario)
		if err != nil {
			t.Fatal(err)
		}
		var sc Scenario
		if err := json.Unmarshal(b, &sc); err != nil {
			t.Fatal(err)
		}
		r := runScenario(rt, &sc)
		r.Scenario = &sc
		emit(&r)
	case "gen":
		for i := a.From + a.Offset; i < a.To; i += a.Stride {
			sc := genScenario(&a, i)
			r := RunResult{Run: i, RunSeed: sc.RunSeed, Scenario: sc}
			emit(&r)
		}
	case "explore":
		if a.Stride <= 0 {
			a.Stride = 1
		}
		n := 0
		for i := a.From + a.Offset; i < a.To; i += a.Stride {
			sc := genScenario(&a, i)
			if sc == nil {
				t.Fatalf("no generator for %s", a.Property)
			}
			t0 := time.Now()
			r := runScenario(rt, sc)
			r.WallMs = time.Since(t0).Milliseconds()
			if len(r.Violations) > 0 || r.Trouble != "" || n < a.Samples {
				r.Scenario = sc
			}
			n++
			emit(&r)
		}
	default:
		t.Fatalf("unknown mode %q", a.Mode)
	}
}
