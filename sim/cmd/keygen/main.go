// keygen writes the harness-owned signing keys under /verif/keys (run once;
// the keys are committed). They are test keys and protect nothing.
package main

import (
	"bytes"
	"crypto"
	"crypto/rand"
	"crypto/rsa"
	"crypto/x509"
	"encoding/pem"
	"fmt"
	"os"
	"path/filepath"
	"strings"
	"time"

	"github.com/ProtonMail/go-crypto/openpgp"
	"github.com/ProtonMail/go-crypto/openpgp/armor"
	"github.com/ProtonMail/go-crypto/openpgp/packet"
)

const Pass = "hunter2 verif"

func must(err error) {
	if err != nil {
		panic(err)
	}
}

func serializePriv(e *openpgp.Entity, armored bool) []byte {
	var b bytes.Buffer
	if armored {
		w, err := armor.Encode(&b, openpgp.PrivateKeyType, nil)
		must(err)
		must(e.SerializePrivateWithoutSigning(w, nil))
		must(w.Close())
	} else {
		must(e.SerializePrivateWithoutSigning(&b, nil))
	}
	return b.Bytes()
}

func serializePub(e *openpgp.Entity, armored bool) []byte {
	var b bytes.Buffer
	if armored {
		w, err := armor.Encode(&b, openpgp.PublicKeyType, nil)
		must(err)
		must(e.Serialize(w))
		must(w.Close())
	} else {
		must(e.Serialize(&b))
	}
	return b.Bytes()
}

func main() {
	dir := "/verif/keys"
	if len(os.Args) > 1 {
		dir = os.Args[1]
	}
	must(os.MkdirAll(dir, 0o755))
	cfg := &packet.Config{RSABits: 2048, DefaultHash: crypto.SHA256, Algorithm: packet.PubKeyAlgoRSA}
	write := func(name string, data []byte) {
		must(os.WriteFile(filepath.Join(dir, name), data, 0o644))
	}
	if len(os.Args) > 2 && os.Args[2] == "only-rsa-b" {
		// a second RSA key for apk (key rotation cases)
		k, err := rsa.GenerateKey(rand.Reader, 2048)
		must(err)
		p1 := x509.MarshalPKCS1PrivateKey(k)
		write("rsa_b.priv", pem.EncodeToMemory(&pem.Block{Type: "RSA PRIVATE KEY", Bytes: p1}))
		//nolint:staticcheck
		enc, err := x509.EncryptPEMBlock(rand.Reader, "RSA PRIVATE KEY", p1, []byte(Pass), x509.PEMCipherAES256)
		must(err)
		write("rsa_b.enc.priv", pem.EncodeToMemory(enc))
		pub, err := x509.MarshalPKIXPublicKey(&k.PublicKey)
		must(err)
		write("rsa_b.pub", pem.EncodeToMemory(&pem.Block{Type: "PUBLIC KEY", Bytes: pub}))
		fmt.Println("key rsa_b written to", dir)
		return
	}
	if len(os.Args) > 2 && os.Args[2] == "only-h" {
		// key H: another export of key G (same primary key, same passphrase)
		// that carries only G's older signing subkey - what a per-repository
		// export or a file from before a subkey rotation looks like. Derived
		// from pgp_g.gpg without unlocking anything.
		raw, err := os.ReadFile(filepath.Join(dir, "pgp_g.gpg"))
		must(err)
		el, err := openpgp.ReadKeyRing(bytes.NewReader(raw))
		must(err)
		h := el[0]
		old, err := os.ReadFile(filepath.Join(dir, "pgp_g.oldsubkeyid"))
		must(err)
		var keep []openpgp.Subkey
		for _, sk := range h.Subkeys {
			if fmt.Sprintf("%016x", sk.PublicKey.KeyId) == strings.TrimSpace(string(old)) {
				keep = append(keep, sk)
			}
		}
		if len(keep) != 1 {
			panic("old subkey of G not found")
		}
		h.Subkeys = keep
		write("pgp_h.pub.asc", serializePub(h, true))
		write("pgp_h.pub.gpg", serializePub(h, false))
		write("pgp_h.keyid", []byte(fmt.Sprintf("%016x", h.PrimaryKey.KeyId)))
		write("pgp_h.subkeyid", []byte(fmt.Sprintf("%016x", keep[0].PublicKey.KeyId)))
		write("pgp_h.asc", serializePriv(h, true))
		write("pgp_h.gpg", serializePriv(h, false))
		fmt.Println("key H written to", dir)
		return
	}
	if len(os.Args) > 2 && os.Args[2] == "only-e" {
		// key E: unprotected, primary key plus a signing subkey; key D is made
		// from it with: gpg --import pgp_e.asc; gpg --export-secret-subkeys
		// (primary secret key becomes a GNU dummy stub)
		// made "at" 06:00Z, before the simulated instant every build runs at
		cfg.Time = func() time.Time { return time.Date(2026, 10, 2, 6, 0, 0, 0, time.UTC) }
		e, err := openpgp.NewEntity("Verif Harness E", "unprotected subkey test key", "e@verif.invalid", cfg)
		must(err)
		must(e.AddSigningSubkey(cfg))
		write("pgp_e.pub.asc", serializePub(e, true))
		write("pgp_e.pub.gpg", serializePub(e, false))
		write("pgp_e.keyid", []byte(fmt.Sprintf("%016x", e.PrimaryKey.KeyId)))
		for _, sk := range e.Subkeys {
			if sk.Sig != nil && sk.Sig.FlagsValid && sk.Sig.FlagSign {
				write("pgp_e.subkeyid", []byte(fmt.Sprintf("%016x", sk.PublicKey.KeyId)))
			}
		}
		write("pgp_e.asc", serializePriv(e, true))
		fmt.Println("key E written to", dir)
		return
	}
	if len(os.Args) > 2 && os.Args[2] == "only-c" {
		// key C: protected, primary key plus a signing subkey (key_id may name either)
		c, err := openpgp.NewEntity("Verif Harness C", "subkey test key", "c@verif.invalid", cfg)
		must(err)
		must(c.AddSigningSubkey(cfg))
		write("pgp_c.pub.asc", serializePub(c, true))
		write("pgp_c.pub.gpg", serializePub(c, false))
		write("pgp_c.keyid", []byte(fmt.Sprintf("%016x", c.PrimaryKey.KeyId)))
		for _, sk := range c.Subkeys {
			if sk.Sig != nil && sk.Sig.FlagsValid && sk.Sig.FlagSign {
				write("pgp_c.subkeyid", []byte(fmt.Sprintf("%016x", sk.PublicKey.KeyId)))
			}
		}
		must(c.PrivateKey.Encrypt([]byte(Pass)))
		for _, sk := range c.Subkeys {
			must(sk.PrivateKey.Encrypt([]byte(Pass)))
		}
		write("pgp_c.asc", serializePriv(c, true))
		write("pgp_c.gpg", serializePriv(c, false))
		fmt.Println("key C written to", dir)
		return
	}
	// PGP key A: unprotected
	a, err := openpgp.NewEntity("Verif Harness A", "test key", "a@verif.invalid", cfg)
	must(err)
	write("pgp_a.asc", serializePriv(a, true))
	write("pgp_a.gpg", serializePriv(a, false))
	write("pgp_a.pub.asc", serializePub(a, true))
	write("pgp_a.pub.gpg", serializePub(a, false))
	write("pgp_a.keyid", []byte(fmt.Sprintf("%016x", a.PrimaryKey.KeyId)))
	// PGP key B: protected with Pass
	b, err := openpgp.NewEntity("Verif Harness B", "protected test key", "b@verif.invalid", cfg)
	must(err)
	write("pgp_b.pub.asc", serializePub(b, true))
	write("pgp_b.pub.gpg", serializePub(b, false))
	write("pgp_b.keyid", []byte(fmt.Sprintf("%016x", b.PrimaryKey.KeyId)))
	must(b.PrivateKey.Encrypt([]byte(Pass)))
	for _, s := range b.Subkeys {
		must(s.PrivateKey.Encrypt([]byte(Pass)))
	}
	write("pgp_b.asc", serializePriv(b, true))
	write("pgp_b.gpg", serializePriv(b, false))
	// RSA keys for apk
	k, err := rsa.GenerateKey(rand.Reader, 2048)
	must(err)
	p1 := x509.MarshalPKCS1PrivateKey(k)
	write("rsa_a.priv", pem.EncodeToMemory(&pem.Block{Type: "RSA PRIVATE KEY", Bytes: p1}))
	p8, err := x509.MarshalPKCS8PrivateKey(k)
	must(err)
	write("rsa_a.pkcs8.priv", pem.EncodeToMemory(&pem.Block{Type: "PRIVATE KEY", Bytes: p8}))
	//nolint:staticcheck
	enc, err := x509.EncryptPEMBlock(rand.Reader, "RSA PRIVATE KEY", p1, []byte(Pass), x509.PEMCipherAES256)
	must(err)
	write("rsa_a.enc.priv", pem.EncodeToMemory(enc))
	pub, err := x509.MarshalPKIXPublicKey(&k.PublicKey)
	must(err)
	write("rsa_a.pub", pem.EncodeToMemory(&pem.Block{Type: "PUBLIC KEY", Bytes: pub}))
	fmt.Println("keys written to", dir)
}
