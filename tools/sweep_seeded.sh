#!/bin/bash
# sweep_seeded.sh [ids...] : run every quick check against every seeded change,
# each applied to its own scratch worktree (VERIF_REPO), never to /repo.
# Prints one line per (seeded change, property): exit code and violation keys.
# Works from wherever this script lives (/verif or a snapshot copy of it).
HOME_DIR=$(cd "$(dirname "$0")/.." && pwd -P) || exit 2
cd "$HOME_DIR" || exit 2
IDS=${@:-$(ls seeded | grep '^S')}
for id in $IDS; do
  wt=/tmp/sweep-$id
  git -C /repo worktree remove --force $wt 2>/dev/null
  git -C /repo worktree add -q --detach $wt HEAD || continue
  if ! git -C $wt apply "$HOME_DIR/seeded/$id/patch.diff"; then echo "$id: patch does not apply"; git -C /repo worktree remove --force $wt; continue; fi
  for p in C06 C07 C10 C11 C12; do
    out=$(VERIF_REPO=$wt bin/check $p --no-evidence --no-minimise 2>&1); rc=$?
    keys=$(echo "$out" | grep -E "^violation:" | sed -E 's/^violation: ([^ ]+( <-> [^ ]+)?).*/\1/' | cut -c1-110 | sort -u | tr '\n' ';')
    tr=$(echo "$out" | grep -c "HARNESS-TROUBLE")
    echo "$id $p exit=$rc trouble=$tr $keys"
  done
  git -C /repo worktree remove --force $wt
  rm -f "$HOME_DIR"/replays/*.json
done
