#!/bin/bash
# try_mutant.sh <patch> [props...] : apply a seeded change to /repo, run the
# quick checks, undo it. Never leaves /repo modified.
P=$(readlink -f "$1"); shift
PROPS=${@:-C06 C07 C10 C11 C12}
cd /repo || exit 2
git diff --quiet || { echo "/repo is dirty"; exit 2; }
git apply "$P" || { echo "patch does not apply"; exit 2; }
trap 'git -C /repo checkout -q -- .; git -C /repo clean -fdq; git -C /repo status --short' EXIT
cd /verif
for p in $PROPS; do
  out=$(bin/check $p --no-evidence 2>&1); rc=$?
  echo "== $p exit=$rc"
  echo "$out" | grep -E "^(violation:|VIOLATION|HARNESS-TROUBLE|KNOWN-FINDING)" | cut -c1-400 | head -8
done
