package sim

import (
	"crypto/sha256"
	"encoding/hex"
	"fmt"
	"os"
	"runtime"
	"sort"
	"strconv"
	"strings"
	"sync"
	"sync/atomic"

	"github.com/goreleaser/nfpm/v2"
)

// GenC12 draws one C12 scenario: clients, sharing, scheduler parameters.
func GenC12(verifSeed uint64, run int) *Scenario {
	seed := Mix(verifSeed, 12, uint64(run))
	g := NewRng(seed)
	w, cfgTree := GenWorldCfg(g, GenOpts{FixMTime: true, Small: true, SharedBias: true, PartialInvalidP: 0.2})
	// (one P more often: per-P caches such as sync.Pool hand an object from one
	// client to the next only on the same P)
	plan := &C12Plan{NConfigs: 1, GoMaxProcs: Pick(g, []int{1, 1, 2, 4, 16})}
	// clients of the shared Config: different formats, each at most once
	fs := append([]string{}, Formats...)
	g.Shuffle(len(fs), func(i, j int) { fs[i], fs[j] = fs[j], fs[i] })
	n := g.Range(2, 5)
	nPrepare := 0
	for i := 0; i < n; i++ {
		c := Client{ID: len(plan.Clients), Config: 0, Format: fs[i], Kind: "package", Name: g.Bool(0.3)}
		if nPrepare < 2 && i < n-1 && g.Bool(0.25) {
			c.Kind = "prepare"
			nPrepare++
		}
		plan.Clients = append(plan.Clients, c)
	}
	// clients of an independently parsed Config: any formats
	if g.Bool(0.6) && len(plan.Clients) < 6 {
		plan.NConfigs = 2
		m := g.Range(1, 2)
		for i := 0; i < m && len(plan.Clients) < 6; i++ {
			// mostly a format that is also being built from the shared
			// Config: two packagings of one format at once is what exposes
			// per-packager process-wide state
			f := Pick(g, Formats)
			if g.Bool(0.65) {
				f = plan.Clients[g.Intn(n)].Format
			}
			plan.Clients = append(plan.Clients, Client{ID: len(plan.Clients), Config: 1, Format: f, Kind: "package", Name: g.Bool(0.3)})
		}
	}
	for i := range plan.Clients {
		// a caller's build pipeline may validate before it packages
		plan.Clients[i].Validate = g.Bool(0.3)
	}
	for i := range plan.Clients {
		c := &plan.Clients[i]
		if !signable(c.Format) || c.Kind != "package" {
			continue
		}
		// deb/rpm with a key file configured always sign through the
		// deterministic simulated signer (salted key-file signatures have no
		// byte oracle); others sometimes get their own signer
		// deb/rpm with a key file configured: half of the clients sign
		// through the deterministic simulated signer (byte oracle), half
		// through nfpm's own key-file path (salted signatures: race and error
		// oracles only); others sometimes get their own signer
		if contains(w.Signed, c.Format) && c.Format != "apk" {
			c.Signer = g.Bool(0.5)
		} else if g.Bool(0.25) {
			c.Signer = true
		}
	}
	if g.Bool(0.2) {
		plan.Mode = "free"
	} else {
		plan.Mode = "baton"
	}
	plan.SwitchP = Pick(g, []float64{0, 0.05, 0.2, 0.5, 1})
	plan.Guided = g.Bool(0.6)
	plan.SchedSeed = g.Uint64()
	if plan.NConfigs > 1 {
		alt := cloneTree(cfgTree).(map[string]any)
		alt["name"] = fmt.Sprint(alt["name"]) + "-alt"
		alt["description"] = "independently built settings\nwith a description of their own"
		l, _ := alt["contents"].([]any)
		alt["contents"] = append(l, map[string]any{"src": "@SRC@src/dup/b/index.html", "dst": "/usr/share/alt/index.html"})
		if g.Bool(0.2) {
			// the independently built settings name a script that does not
			// exist: their packagings fail part-way (while the others are
			// running), which is when clean-up paths run
			sc, _ := alt["scripts"].(map[string]any)
			if sc == nil {
				sc = map[string]any{}
			}
			sc["postinstall"] = "@SRC@scripts/verif-no-such-script.sh"
			alt["scripts"] = sc
			plan.AltFails = true
			if g.Bool(0.6) {
				// ... after a few hundred KiB of incompressible payload have gone
				// into the compressor (several blocks in flight when it fails)
				w.Tree = append(w.Tree, TreeEntry{Path: "src/big/blob.bin", Kind: "file", Size: g.Range(300_000, 600_000), Fill: g.Uint64(), Mode: 0o644, MTime: 1500000000})
				l2, _ := alt["contents"].([]any)
				alt["contents"] = append(l2, map[string]any{"src": "@SRC@src/big/blob.bin", "dst": "/usr/share/alt/blob.bin"})
			}
		}
		plan.AltConfig = RenderConfig(alt)
	}
	plan.RefAfter = g.Bool(0.5)
	plan.InstrSwitchP = Pick(g, []float64{0.002, 0.01, 0.05, 0.2})
	plan.InstrWanted = g.Bool(0.6)
	return &Scenario{Property: "C12", VerifSeed: verifSeed, Run: run, RunSeed: seed, World: w, C12: plan}
}

// yield sites, encoded in the hand-off message so that the controller never
// reads client memory.
const (
	siteOther = iota
	siteAfterGet
	siteAfterDefaults
	siteAfterName
	siteAfterPrepare
	siteSinkWrite
	siteSigner
	siteInstr
	siteRelease
)

var siteNames = []string{"other", "after.get", "after.defaults", "after.name", "after.prepare", "sink.write", "signer.call", "instr", "instr.release"}

const msgHold = 3

type c12client struct {
	plan    Client
	cfg     *nfpm.Config
	signer  *SimSigner
	res     BuildResult
	getErr  error
	valErr  error
	prepErr error
	name    string
	spin    int
	nYield  int
}

func siteCode(site string) int {
	switch site {
	case "sink.write":
		return siteSinkWrite
	case "signer.call":
		return siteSigner
	}
	return siteOther
}

// body is what one client executes (real nfpm calls only).
func (c *c12client) body(yield func(code int)) {
	if c.plan.Validate {
		c.valErr = c.cfg.Validate()
		yield(siteAfterName)
	}
	info, err := c.cfg.Get(c.plan.Format)
	if err != nil {
		c.getErr = err
		return
	}
	yield(siteAfterGet)
	info = nfpm.WithDefaults(info)
	yield(siteAfterDefaults)
	p, err := nfpm.Get(c.plan.Format)
	if err != nil {
		c.getErr = err
		return
	}
	if c.plan.Name {
		c.name = p.ConventionalFileName(info)
		yield(siteAfterName)
	}
	if c.plan.Kind == "prepare" {
		c.prepErr = nfpm.PrepareForPackager(info, c.plan.Format)
		yield(siteAfterPrepare)
		return
	}
	o := BuildOpts{Format: c.plan.Format, Signer: c.signer, Yield: func(site string) { yield(siteCode(site)) }}
	c.res = PackageInfo(info, o)
}

func refKey(c Client) string {
	return fmt.Sprintf("%d/%s/%s", c.Config, c.Format, c12Sign(c))
}

func c12Sign(c Client) string {
	if c.Signer {
		return "callback"
	}
	return ""
}

// RunC12 executes a C12 scenario. Race reports are attributed by the driver
// (one scenario per OS process; ThreadSanitizer de-duplicates per process).
func RunC12(rt *Runtime, sc *Scenario) RunResult {
	res := RunResult{Run: sc.Run, RunSeed: sc.RunSeed, Counters: map[string]int64{}}
	elog := NewEventLog()
	w := &sc.World
	plan := sc.C12
	if err := Materialize(rt.Root, w.Tree); err != nil {
		res.Trouble = "materialize: " + err.Error()
		return res
	}
	rt.SetEnv(w.Env)
	if err := rt.SetSrcMode("rel"); err != nil {
		res.Trouble = "chdir: " + err.Error()
		return res
	}
	if !plan.Replay && plan.Mode != "free" {
		// the thorough tier builds against the ast-instrumented copy: then
		// every function entry and loop body of nfpm is a yield point
		plan.Instr = instrAvailable && plan.InstrWanted
	}
	gmp := plan.GoMaxProcs
	if gmp <= 0 {
		gmp = 4
	}
	if plan.Mode == "free" && gmp < 2 {
		gmp = 2
	}
	old := runtime.GOMAXPROCS(gmp)
	defer runtime.GOMAXPROCS(old)

	// reference model: sequential, alone, fresh parse. In half of the runs it
	// is computed after the concurrent phase, so that lazily initialised or
	// cached process-wide state is still cold while the clients overlap (a
	// sequential warm-up would hide first-use races).
	refs := map[string]*RefInfo{}
	buildRefs := func() bool {
		for _, c := range plan.Clients {
			if c.Kind != "package" {
				continue
			}
			k := refKey(c)
			if _, ok := refs[k]; ok {
				continue
			}
			cfgText := ""
			if c.Config == 1 {
				cfgText = plan.AltConfig
			}
			if !c.Signer && contains(w.Signed, c.Format) && c.Format != "apk" {
				// key-file signed: salted signatures, no byte oracle; not
				// building it sequentially also keeps key handling cold
				res.Counters["probe.keyfile_signing_client"]++
				refs[k] = nil
				continue
			}
			ref, ok, err := rt.Reference(w, c.Format, c12Sign(c), cfgText, gmp)
			res.Counters["builds"] += int64(ref.Builds)
			res.Notes = append(res.Notes, ref.Notes...)
			if err != nil {
				res.Trouble = "reference setup: " + err.Error()
				return false
			}
			if plan.AltFails && c.Config == 1 && !ok {
				// (a format whose override block brings its own scripts still builds)
				res.Counters["probe.client_fails_partway_by_construction"]++
				res.Notes = res.Notes[:len(res.Notes)-len(ref.Notes)]
				refs[k] = nil
				continue
			}
			if contains(w.ExpectFail, c.Format) {
				if ok {
					res.Trouble = fmt.Sprintf("generator: %s was expected to be invalid for this configuration but builds", c.Format)
					return false
				}
				res.Counters["probe.format_fails_by_construction"]++
				res.Notes = res.Notes[:len(res.Notes)-len(ref.Notes)]
				refs[k] = nil
				continue
			}
			if !ok {
				res.Counters["reference_failed"]++
				refs[k] = nil
				continue
			}
			if !ref.Stable && !ref.KeyFileSigned {
				res.Counters["unstable_reference"]++
			}
			refs[k] = ref
		}

		return true
	}
	if !plan.RefAfter {
		if !buildRefs() {
			return res
		}
	}

	// the parsed configurations (shared by their clients)
	cfgs := make([]*nfpm.Config, plan.NConfigs)
	for i := range cfgs {
		text := w.Config
		if i == 1 && plan.AltConfig != "" {
			text = plan.AltConfig
		}
		cfg, err := rt.ParseConfig(text)
		if err != nil {
			res.Trouble = "parse: " + err.Error()
			return res
		}
		cfgs[i] = &cfg
	}
	clients := make([]*c12client, len(plan.Clients))
	sr := NewRng(Mix(plan.SchedSeed, 77))
	for i, pc := range plan.Clients {
		c := &c12client{plan: pc, cfg: cfgs[pc.Config], spin: sr.Intn(20000)}
		if pc.Signer && pc.Kind == "package" {
			c.signer = NewSimSigner(signerKind(w, pc.Format, w.Config), nil)
			if err := c.signer.Prepare(); err != nil {
				res.Trouble = "signer: " + err.Error()
				return res
			}
		}
		clients[i] = c
	}

	// The concurrent phase runs at the same simulated instant as the
	// sequential reference: the only thing that differs between the two is
	// concurrency (a clock-dependent output is C07's to report, not C12's).
	var schedule []Switch
	var trace []string
	var trouble string
	leaked := rt.InBubble(SimNow, func() {
		switch plan.Mode {
		case "free":
			runFree(clients)
		default:
			schedule, trace, trouble = runBaton(clients, plan)
		}
	})
	if leaked {
		res.Counters["bubble_goroutine_leak"]++
	}
	if trouble != "" {
		res.Trouble = trouble
		return res
	}
	if plan.Mode == "free" {
		res.Counters["runs_free"]++
	} else {
		res.Counters["runs_baton"]++
		for _, t := range trace {
			if strings.HasPrefix(t, "timeout:") {
				res.Counters["baton_timeouts"]++
			}
		}
		res.Counters["context_switches"] += int64(len(schedule))
		res.Counters["yields"] += int64(len(trace))
	}

	if plan.RefAfter {
		if !buildRefs() {
			return res
		}
	}
	// oracles over the results
	seen := map[string]bool{}
	violate := func(v Violation) {
		v.Property = "C12"
		if seen[v.Key()] {
			return
		}
		seen[v.Key()] = true
		res.Violations = append(res.Violations, v)
	}
	var fmts []string
	for _, c := range clients {
		fmts = append(fmts, fmt.Sprintf("%s:%s@%d", c.plan.Kind, c.plan.Format, c.plan.Config))
		if c.getErr != nil {
			violate(Violation{Oracle: "error", Format: c.plan.Format, Group: "get-fails-concurrently", Detail: fmt.Sprintf("client %d: Get/lookup for %s failed while other packagings ran: %v", c.plan.ID, c.plan.Format, c.getErr)})
			continue
		}
		if c.plan.Kind != "package" {
			elog.Add("client %d prepare %s failed=%v", c.plan.ID, c.plan.Format, c.prepErr != nil)
			continue
		}
		res.Counters["builds"]++
		if c.res.Sink != nil && c.res.Sink.LateWrites() > 0 {
			// a goroutine of this packaging outlived the call and wrote to the
			// writer, which by then belonged to the caller again
			violate(Violation{Oracle: "late-write", Format: c.plan.Format, Group: "write-after-package-returned",
				Detail: fmt.Sprintf("client %d: %d write(s) to the destination writer of the %s packaging arrived after Package had returned (err=%v)", c.plan.ID, c.res.Sink.LateWrites(), c.plan.Format, c.res.Err != nil)})
		}
		if !c.plan.Signer && contains(w.Signed, c.plan.Format) && c.plan.Format != "apk" {
			// key-file signed: salted signature, bytes are not logged
			elog.Add("client %d package %s failed=%v (key-file signed) name=%s", c.plan.ID, c.plan.Format, c.res.Err != nil, c.name)
		} else {
			sum := sha256.Sum256(c.res.Bytes)
			elog.Add("client %d package %s failed=%v bytes=%d sha=%x name=%s", c.plan.ID, c.plan.Format, c.res.Err != nil, len(c.res.Bytes), sum[:8], c.name)
		}
		ref := refs[refKey(c.plan)]
		if ref == nil {
			continue
		}
		if c.res.Err != nil {
			violate(Violation{Oracle: "bytes", Format: c.plan.Format, Group: "fails-concurrently",
				Detail: fmt.Sprintf("client %d: packaging %s fails when run concurrently with %v although it succeeds sequentially: %s", c.plan.ID, c.plan.Format, fmts, scrub(rt, c.res.Err.Error()))})
			continue
		}
		if ref.Stable && !ref.Match(c.res.Bytes) {
			violate(Violation{Oracle: "bytes", Format: c.plan.Format, Group: "differs-from-sequential",
				Detail: fmt.Sprintf("client %d: %s package built concurrently differs from the one built sequentially: %s", c.plan.ID, c.plan.Format, firstDiff(c.res.Bytes, ref.F))})
		}
	}
	for _, s := range schedule {
		elog.Add("switch y=%d c=%d", s.Yield, s.Client)
	}
	for _, t := range trace {
		elog.Add("yield %s", t)
	}
	if plan.Mode != "free" {
		res.LogHash = elog.Sum()
	}
	// record the schedule in the scenario: the replay file carries the
	// switch points, not the PRNG
	if !plan.Replay {
		plan.Schedule = schedule
	}
	nshared := 0
	for _, c := range plan.Clients {
		if c.Config == 0 {
			nshared++
		}
	}
	if len(schedule) > 1 || plan.Mode == "free" {
		h := sha256.New()
		fmt.Fprintf(h, "%v|%v|%v|%s", fmts, schedule, trace, plan.Mode)
		if plan.Mode == "free" {
			fmt.Fprintf(h, "|%d|%d", sc.RunSeed, gmp)
		}
		res.Distinct = append(res.Distinct, hex.EncodeToString(h.Sum(nil))[:16])
	}
	sort.Strings(res.Distinct)
	res.Sample = map[string]any{"run": sc.Run, "mode": plan.Mode, "clients": fmts, "gomaxprocs": gmp, "switch_p": plan.SwitchP, "guided": plan.Guided, "switches": len(schedule), "yields": len(trace), "features": w.Features}
	return res
}

func batonTimeoutMs() int {
	if v, err := strconv.Atoi(os.Getenv("VERIF_BATON_TIMEOUT_MS")); err == nil && v > 0 {
		return v
	}
	return 2000
}

// runFree: start barrier, true parallelism, PRNG-drawn start offsets. This is
// runtime monitoring (the Go scheduler decides), used as a cross-check of
// reach; it is labelled as such in the evidence.
func runFree(clients []*c12client) {
	var start atomic.Bool
	var wg sync.WaitGroup
	for _, c := range clients {
		wg.Add(1)
		go func(c *c12client) {
			defer wg.Done()
			for !start.Load() {
				runtime.Gosched()
			}
			x := 0
			for i := 0; i < c.spin; i++ {
				x += i
			}
			_ = x
			c.body(func(int) {})
		}(c)
	}
	start.Store(true)
	wg.Wait()
}

// runBaton runs the clients under the baton scheduler and returns the switch
// points and the yield trace ("client:site" per yield, from the hand-off
// messages only).
func runBaton(clients []*c12client, plan *C12Plan) (schedule []Switch, trace []string, trouble string) {
	n := len(clients)
	b, err := NewBaton(n)
	if err != nil {
		return nil, nil, "pipes: " + err.Error()
	}
	defer b.Close()
	if plan.Instr {
		if !instrAvailable {
			return nil, nil, "scenario needs the ast-instrumented build (plan.instr) but the harness was built without it"
		}
		instrStart(b, n)
		defer instrStop()
	}
	var wg sync.WaitGroup
	for i, c := range clients {
		wg.Add(1)
		go func(id int, c *c12client) {
			defer wg.Done()
			instrRegister(id)
			b.WaitStart(id)
			me := curGID()
			c.body(func(code int) {
				// a sink write may come from a goroutine of the compressor
				// (zstd writes finished blocks asynchronously): only the
				// client goroutine itself takes part in the hand-over
				if curGID() != me {
					return
				}
				b.YieldCode(id, code)
			})
			if c.plan.Kind == "prepare" && c.getErr == nil {
				// stay parked (short, fresh race-detector history) until all
				// packaging clients are done
				b.Hold(id)
			}
			b.Done(id)
		}(i, c)
	}
	g := NewRng(plan.SchedSeed)
	done := make([]bool, n)
	held := make([]bool, n)
	replayAt := map[int]int{}
	if plan.Replay {
		for _, s := range plan.Schedule {
			replayAt[s.Yield] = s.Client
		}
	}
	candidates := func(except int) []int {
		var out []int
		for i := 0; i < n; i++ {
			if !done[i] && !held[i] && i != except {
				out = append(out, i)
			}
		}
		return out
	}
	remaining := n
	yieldNo := 0
	// running: clients released and not yet heard from. Normally exactly one.
	// When the released client blocks on a lock that a parked client holds,
	// nothing arrives; after a generous timeout the controller releases
	// another parked client as well (recorded in the trace). While more than
	// one client is running, arriving clients stay parked until the set is
	// empty again, which restores the one-runner invariant.
	running := map[int]bool{}
	lastTimeoutRelease := -1
	idleTimeouts := 0
	parked := make([]bool, n)
	for i := range parked {
		parked[i] = true
	}
	// first client
	cur := 0
	if plan.Replay {
		if c, ok := replayAt[0]; ok && c < n {
			cur = c
		}
	} else {
		cur = g.Intn(n)
	}
	schedule = append(schedule, Switch{Yield: 0, Client: cur})
	running[cur] = true
	parked[cur] = false
	b.release(cur)
	for remaining > 0 {
		kind, id, ok, timedOut := b.waitTimeout(batonTimeoutMs())
		if !ok {
			return schedule, trace, "baton: control pipe closed"
		}
		if timedOut {
			// The runner is blocked on something a parked client holds (a
			// lock in the code under test). It consumes no CPU and cannot
			// report until it is unblocked, so it no longer counts as
			// running; scheduling goes on among the parked clients. When it
			// gets the lock it runs alongside the current runner until its
			// next yield (brief true parallelism, only in runs where the
			// code under test parks with a lock held).
			wasRunning := map[int]bool{}
			for r := range running {
				wasRunning[r] = true
				delete(running, r)
			}
			next := -1
			for k := 1; k <= n; k++ {
				i := (lastTimeoutRelease + k) % n
				if parked[i] && !done[i] {
					next = i
					break
				}
			}
			lastTimeoutRelease = next
			if next < 0 {
				// nobody else can run: the runner is not blocked by a parked
				// client, it is busy (a large payload in a -race build on a
				// loaded machine) or really stuck. Keep waiting for it, up to a
				// minute in all, before calling it a deadlock.
				idleTimeouts++
				if idleTimeouts*batonTimeoutMs() < 60_000 {
					for r := range wasRunning {
						running[r] = true
					}
					continue
				}
				return schedule, trace, "baton: released client does not respond and nobody else can run (deadlock in the code under test?)"
			}
			idleTimeouts = 0
			trace = append(trace, fmt.Sprintf("timeout:release %d", next))
			held[next] = false
			running[next] = true
			parked[next] = false
			b.release(next)
			continue
		}
		delete(running, id)
		parked[id] = true
		code := kind >> 2
		kind &= 3
		yieldNo++
		switch kind {
		case msgDone:
			done[id] = true
			remaining--
			trace = append(trace, fmt.Sprintf("%d:done", id))
		case msgHold:
			held[id] = true
			trace = append(trace, fmt.Sprintf("%d:hold", id))
		default:
			name := "other"
			if code < len(siteNames) {
				name = siteNames[code]
			}
			trace = append(trace, fmt.Sprintf("%d:%s", id, name))
		}
		if remaining == 0 {
			break
		}
		if len(running) > 0 {
			// another client is still running (lock hand-over): stay parked
			continue
		}
		curRunnable := !done[id] && !held[id]
		next := -1
		if plan.Replay {
			if c, ok := replayAt[yieldNo]; ok && c < n && !done[c] && (!held[c] || len(candidates(-1)) == 0) {
				next = c
			}
		} else if curRunnable {
			p := plan.SwitchP
			if code == siteInstr || code == siteRelease {
				p = plan.InstrSwitchP
			}
			// right after a client handed something back (Close, Put, Flush,
			// between its deferred calls): the window in which a resource that
			// was released too early is picked up by somebody else
			if plan.Guided && code == siteRelease && p < 0.4 {
				p = 0.4
			}
			if plan.Guided && (code == siteAfterGet || code == siteAfterDefaults || code == siteAfterPrepare || code == siteAfterName) && p < 0.7 {
				p = 0.7
			}
			// a client parked inside a write to its sink is in the middle of
			// flushing / closing its encoders: in-flight state worth
			// interleaving with
			if plan.Guided && code == siteSinkWrite && p < 0.5 {
				p = 0.5
			}
			others := candidates(id)
			if len(others) > 0 && g.Bool(p) {
				next = others[g.Intn(len(others))]
			}
		} else {
			others := candidates(-1)
			if len(others) > 0 {
				next = others[g.Intn(len(others))]
			}
		}
		if next < 0 {
			if curRunnable {
				next = id
			} else if c := candidates(-1); len(c) > 0 {
				next = c[0]
			} else {
				// only held clients are left: let them finish, lowest id first
				for i := 0; i < n; i++ {
					if held[i] && !done[i] {
						next = i
						held[i] = false
						break
					}
				}
			}
		}
		if next < 0 {
			return schedule, trace, "baton: nobody left to run"
		}
		if held[next] {
			held[next] = false
		}
		if next != id {
			schedule = append(schedule, Switch{Yield: yieldNo, Client: next})
		}
		running[next] = true
		parked[next] = false
		b.release(next)
	}
	wg.Wait()
	return schedule, trace, ""
}

// keep the linker from dropping strings import when unused in some builds
var _ = strings.TrimSpace
