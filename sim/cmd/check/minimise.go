package main

import (
	"encoding/json"
	"fmt"
	"sort"
	"strings"
	"time"

	"gopkg.in/yaml.v3"

	"verifsim"
)

func cloneScenario(sc *sim.Scenario) *sim.Scenario {
	b, _ := json.Marshal(sc)
	var out sim.Scenario
	json.Unmarshal(b, &out)
	return &out
}

// reduceToCase rewrites the plan so that only what the violation names is
// executed (the failing case, history, environment pair or schedule).
func (d *driver) reduceToCase(sc *sim.Scenario) *sim.Scenario {
	out := cloneScenario(sc)
	v := out.Violation
	if v == nil {
		return out
	}
	switch out.Property {
	case "C06":
		if v.Case != nil && out.C06 != nil {
			out.C06.Cases = []sim.Case{*v.Case}
			out.World.Refs = nil // only needed to enumerate the fault space
			out.C06.Variants = nil
			if v.Case.Class != "cli" {
				out.C06.Invalid = nil
			}
			out.C06.CLI = false
		}
	case "C10":
		if v.Case != nil && out.C10 != nil {
			out.C10.Cases = []sim.Case{*v.Case}
		}
	case "C11":
		if v.History != nil && out.C11 != nil {
			out.C11.Histories = [][]sim.Op{v.History}
			out.C11.Perms = false
			out.C11.Short = false
			out.C11.Deep3 = false
			out.C11.NRandom = 0
		}
	case "C07":
		if out.C07 != nil && v.Format != "" {
			out.C07.Formats = []string{v.Format}
			if v.Env != nil && len(out.C07.Envs) > 0 {
				out.C07.Envs = []sim.Env07{out.C07.Envs[0], *v.Env}
			}
		}
	}
	return out
}

// minimise shrinks a failing scenario while the same violation class (Key)
// persists. Every candidate is executed in a fresh worker process. Budget:
// 80 candidates or 90 s.
func (d *driver) minimise(sc *sim.Scenario) *sim.Scenario {
	key := sc.Violation.Key()
	deadline := time.Now().Add(150 * time.Second)
	budget := 100
	tries := 0
	var allowed map[string]bool
	if r, err := d.runScenario(sc, "min"); err == nil && r.Trouble == "" && hasKey(r, key) != nil {
		allowed = map[string]bool{}
		for i := range r.Violations {
			allowed[r.Violations[i].Key()] = true
		}
	}
	try := func(c *sim.Scenario) *sim.Violation {
		if budget <= 0 || time.Now().After(deadline) {
			return nil
		}
		budget--
		tries++
		r, err := d.runScenario(c, "min")
		if err != nil || r.Trouble != "" {
			return nil
		}
		// a candidate that shows violations of other classes than the full
		// scenario did is a scenario the minimiser broke (a case of the plan
		// lost something it needs), not a smaller version of this one
		if allowed != nil {
			for i := range r.Violations {
				if !allowed[r.Violations[i].Key()] {
					return nil
				}
			}
		}
		return hasKey(r, key)
	}
	cur := cloneScenario(sc)
	// pass 1: only the failing case / history / environments
	if c := d.reduceToCase(cur); true {
		if v := try(c); v != nil {
			c.Violation = v
			cur = c
		}
	}
	// pass 1a (C06/C10): a violation that needs earlier cases of the plan
	// (state left behind in the process by an earlier packaging) does not
	// survive the reduction to its own case: keep the plan up to the failing
	// case and drop chunks of what precedes it while the violation persists
	if (cur.Property == "C10" && cur.C10 != nil && len(cur.C10.Cases) > 1) && cur.Violation != nil && cur.Violation.Case != nil {
		want, _ := json.Marshal(cur.Violation.Case)
		cases := cur.C10.Cases
		idx := -1
		for i := range cases {
			if b, _ := json.Marshal(&cases[i]); string(b) == string(want) {
				idx = i
				break
			}
		}
		if idx >= 0 {
			set := func(cs []sim.Case) *sim.Scenario {
				c := cloneScenario(cur)
				c.C10.Cases = append([]sim.Case{}, cs...)
				return c
			}
			pre := append([]sim.Case{}, cases[:idx]...)
			last := cases[idx]
			if c := set(append(append([]sim.Case{}, pre...), last)); true {
				if v := try(c); v != nil {
					c.Violation = v
					cur = c
					for chunk := (len(pre) + 1) / 2; chunk >= 1 && len(pre) > 0; {
						removed := false
						for at := 0; at < len(pre); {
							end := at + chunk
							if end > len(pre) {
								end = len(pre)
							}
							cand := append(append([]sim.Case{}, pre[:at]...), pre[end:]...)
							c := set(append(append([]sim.Case{}, cand...), last))
							if v := try(c); v != nil {
								c.Violation = v
								cur = c
								pre = cand
								removed = true
							} else {
								at = end
							}
							if budget <= 0 {
								break
							}
						}
						if budget <= 0 {
							break
						}
						if chunk == 1 && !removed {
							break
						}
						if chunk > 1 {
							chunk = (chunk + 1) / 2
						}
					}
				}
			}
		}
	}
	// pass 1b (C11): drop operations from the history
	if cur.Property == "C11" && cur.C11 != nil && len(cur.C11.Histories) == 1 {
		for i := 0; i < len(cur.C11.Histories[0]); {
			c := cloneScenario(cur)
			h := c.C11.Histories[0]
			c.C11.Histories[0] = append(append([]sim.Op{}, h[:i]...), h[i+1:]...)
			if len(c.C11.Histories[0]) == 0 {
				i++
				continue
			}
			if v := try(c); v != nil {
				c.Violation = v
				cur = c
			} else {
				i++
			}
		}
	}
	// pass 1c (C12): drop clients, then context switches
	if cur.Property == "C12" && cur.C12 != nil {
		cur = d.minimiseC12(cur, try)
	}
	// pass 2: drop parts of the configuration tree (not for violations whose
	// oracle depends on the reference table staying in step with the
	// configuration)
	var cfg map[string]any
	if strings.Contains(key, "stale-after-source-change") {
		fmt.Printf("minimised %s in %d candidate runs (configuration kept: the oracle uses the scenario's reference table)\n", key, tries)
		return cur
	}
	if err := yaml.Unmarshal([]byte(cur.World.Config), &cfg); err == nil {
		changed := true
		for changed && budget > 0 {
			changed = false
			for _, path := range configPaths(cfg, nil) {
				if protectedPath(cur.Property, path) {
					continue
				}
				cand := cloneAny(cfg).(map[string]any)
				if !deletePath(cand, path) {
					continue
				}
				b, err := yaml.Marshal(cand)
				if err != nil {
					continue
				}
				c := cloneScenario(cur)
				c.World.Config = string(b)
				pruneRefs(c)
				if v := try(c); v != nil {
					c.Violation = v
					cur = c
					cfg = cand
					changed = true
					break
				}
				if budget <= 0 {
					break
				}
			}
		}
	}
	// pass 3: drop tree entries the configuration no longer mentions, shrink files
	{
		c := cloneScenario(cur)
		var kept []sim.TreeEntry
		for _, e := range c.World.Tree {
			if e.Kind == "dir" || mentions(c, e.Path) {
				kept = append(kept, e)
			}
		}
		c.World.Tree = pruneDirs(kept)
		if len(c.World.Tree) < len(cur.World.Tree) {
			if v := try(c); v != nil {
				c.Violation = v
				cur = c
			}
		}
		c = cloneScenario(cur)
		shr := false
		for i := range c.World.Tree {
			if c.World.Tree[i].Kind == "file" && c.World.Tree[i].Size > 16 {
				c.World.Tree[i].Size = 16
				shr = true
			}
		}
		if shr {
			if v := try(c); v != nil {
				c.Violation = v
				cur = c
			}
		}
	}
	fmt.Printf("minimised %s in %d candidate runs: config %d -> %d bytes, tree %d -> %d entries\n", key, tries, len(sc.World.Config), len(cur.World.Config), len(sc.World.Tree), len(cur.World.Tree))
	return cur
}

// protectedPath: settings that are preconditions of the property (fixed mtime,
// fixed rpm build host) must survive minimisation, or the shrunk scenario
// would "fail" for a reason the property excludes.
func protectedPath(prop string, path []any) bool {
	if prop == "C10" {
		// precondition of C10: signing is configured. Neither a signature
		// block nor a block that may contain one is dropped.
		for _, e := range path {
			if e == "signature" {
				return true
			}
		}
		switch len(path) {
		case 1:
			return path[0] == "deb" || path[0] == "rpm" || path[0] == "apk" || path[0] == "overrides"
		case 2:
			return path[0] == "overrides"
		}
		return false
	}
	if prop != "C12" && prop != "C07" {
		return false
	}
	if len(path) == 1 && path[0] == "mtime" {
		return true
	}
	if len(path) >= 1 && path[0] == "rpm" && (len(path) == 1 || path[1] == "buildhost") {
		return true
	}
	return false
}

// pruneRefs drops the references (files a configuration consumes, used to
// enumerate "this file is missing / unreadable" faults) that a shrunk
// configuration no longer mentions: a fault on a file nobody reads is no fault.
func pruneRefs(sc *sim.Scenario) {
	var keep []sim.Ref
	for _, rf := range sc.World.Refs {
		if strings.Contains(sc.World.Config, "@SRC@"+rf.Path) {
			keep = append(keep, rf)
		}
	}
	sc.World.Refs = keep
	var signed []string
	for _, f := range sc.World.Signed {
		if strings.Contains(sc.World.Config, "key_file") {
			signed = append(signed, f)
		}
	}
	sc.World.Signed = signed
}

func mentions(sc *sim.Scenario, path string) bool {
	if strings.Contains(sc.World.Config, path) {
		return true
	}
	// paths below a directory the config mentions (tree / glob sources)
	for _, seg := range []string{"src/tree", "src/share/g"} {
		if strings.HasPrefix(path, seg+"/") && strings.Contains(sc.World.Config, seg) {
			return true
		}
	}
	b, _ := json.Marshal(sc.Violation)
	if strings.Contains(string(b), path) {
		return true
	}
	pb, _ := json.Marshal([]any{sc.C06, sc.C10, sc.C11})
	// (also inside the configuration variants that cases carry: a key file
	// that only a variant names must stay, or the minimised scenario fails
	// for a reason of the minimiser's own making)
	return strings.Contains(string(pb), "\""+path+"\"") || strings.Contains(string(pb), "@SRC@"+path)
}

func pruneDirs(tree []sim.TreeEntry) []sim.TreeEntry {
	var out []sim.TreeEntry
	for _, e := range tree {
		if e.Kind != "dir" {
			out = append(out, e)
			continue
		}
		used := e.Path == "src/tree/empty"
		for _, f := range tree {
			if f.Kind != "dir" && strings.HasPrefix(f.Path, e.Path+"/") {
				used = true
			}
		}
		if used {
			out = append(out, e)
		}
	}
	return out
}

func cloneAny(v any) any {
	switch t := v.(type) {
	case map[string]any:
		m := make(map[string]any, len(t))
		for k, e := range t {
			m[k] = cloneAny(e)
		}
		return m
	case []any:
		l := make([]any, len(t))
		for i, e := range t {
			l[i] = cloneAny(e)
		}
		return l
	}
	return v
}

// configPaths lists every deletable node (map key or list element), outermost
// first, in a deterministic order.
func configPaths(v any, prefix []any) [][]any {
	var out [][]any
	switch t := v.(type) {
	case map[string]any:
		keys := make([]string, 0, len(t))
		for k := range t {
			keys = append(keys, k)
		}
		sort.Strings(keys)
		for _, k := range keys {
			if len(prefix) == 0 && (k == "name" || k == "arch" || k == "version") {
				continue
			}
			p := append(append([]any{}, prefix...), k)
			out = append(out, p)
		}
		for _, k := range keys {
			p := append(append([]any{}, prefix...), k)
			out = append(out, configPaths(t[k], p)...)
		}
	case []any:
		for i := len(t) - 1; i >= 0; i-- {
			p := append(append([]any{}, prefix...), i)
			out = append(out, p)
		}
		for i := range t {
			p := append(append([]any{}, prefix...), i)
			out = append(out, configPaths(t[i], p)...)
		}
	}
	return out
}

func deletePath(root map[string]any, path []any) bool {
	var cur any = root
	for i := 0; i < len(path)-1; i++ {
		switch k := path[i].(type) {
		case string:
			m, ok := cur.(map[string]any)
			if !ok {
				return false
			}
			cur = m[k]
		case int:
			l, ok := cur.([]any)
			if !ok || k >= len(l) {
				return false
			}
			cur = l[k]
		}
	}
	last := path[len(path)-1]
	switch k := last.(type) {
	case string:
		m, ok := cur.(map[string]any)
		if !ok {
			return false
		}
		if _, ok := m[k]; !ok {
			return false
		}
		delete(m, k)
		return true
	case int:
		// the parent holds the list: re-walk to the parent to replace it
		if len(path) < 2 {
			return false
		}
		var parent any = root
		for i := 0; i < len(path)-2; i++ {
			switch kk := path[i].(type) {
			case string:
				parent = parent.(map[string]any)[kk]
			case int:
				parent = parent.([]any)[kk]
			}
		}
		l, ok := cur.([]any)
		if !ok || k >= len(l) {
			return false
		}
		nl := append(append([]any{}, l[:k]...), l[k+1:]...)
		switch pk := path[len(path)-2].(type) {
		case string:
			parent.(map[string]any)[pk] = nl
		case int:
			parent.([]any)[pk] = nl
		}
		return true
	}
	return false
}
