package sim

import (
	"fmt"
	"os"
	"path/filepath"
	"sort"
	"strings"
	"time"

	"gopkg.in/yaml.v3"
)

// GenOpts steers the world generator per property (swarm testing: each run
// additionally draws which features are on).
type GenOpts struct {
	FixMTime        bool // mtime fixed via field or SOURCE_DATE_EPOCH, rpm buildhost fixed (C07 precondition)
	NoSigning       bool // never configure key files
	ForceSign       bool // always configure key files for deb, rpm, apk
	Small           bool // small payloads only (C12)
	SharedBias      bool // bias towards state shared between formats (C11/C12)
	NoBigFiles      bool
	AvoidClock      []int64 // unix times to keep every legitimate timestamp away from (±2 days)
	NoHostLinks     bool    // no symlink targets that exist on the build host
	LinkShapes      bool    // symbolic links among the sources: to a directory of the tree, to a path outside the tree (C07)
	ManyFilesP      float64 // probability of a tree with hundreds of tiny files (size/count thresholds in compressors)
	PartialInvalidP float64 // probability that the configuration is invalid for some formats only
}

type gContent struct {
	m       map[string]any
	refPath string // tree path the entry reads ("" = none)
	refKind string
	single  bool
	typ     string
	pkgr    string
}

type gen struct {
	g     *Rng
	opt   GenOpts
	tree  []TreeEntry
	feats []string
	seen  map[string]bool
}

func (x *gen) feat(name string, p float64) bool {
	on := x.g.Bool(p)
	if on {
		x.feats = append(x.feats, name)
	}
	return on
}

func (x *gen) ts() int64 {
	// legitimate timestamps: 2005..2035, away from every fake "now"
	lo := time.Date(2005, 1, 1, 0, 0, 0, 0, time.UTC).Unix()
	hi := time.Date(2035, 1, 1, 0, 0, 0, 0, time.UTC).Unix()
	for {
		t := lo + x.g.Int63n(hi-lo)
		// boundary bias: midnights and whole hours are where zone-dependent
		// date arithmetic shows
		switch r := x.g.Float(); {
		case r < 0.25:
			t -= t % 86400
		case r < 0.45:
			t -= t % 3600
		}
		ok := true
		// the years the harness itself may run in are never legitimate
		// timestamps, so a stored "real now" is unambiguous.
		if t >= harnessEraLo && t < harnessEraHi {
			ok = false
		}
		for _, a := range x.opt.AvoidClock {
			if t > a-3*86400 && t < a+3*86400 {
				ok = false
			}
		}
		if ok {
			return t
		}
	}
}

func (x *gen) addDir(path string) {
	if path == "" || path == "." || x.seen[path] {
		return
	}
	if i := strings.LastIndex(path, "/"); i > 0 {
		x.addDir(path[:i])
	}
	x.seen[path] = true
	x.tree = append(x.tree, TreeEntry{Path: path, Kind: "dir", Mode: 0o755, MTime: x.ts()})
}

func (x *gen) addFile(path string, size int, mode uint32) {
	if i := strings.LastIndex(path, "/"); i > 0 {
		x.addDir(path[:i])
	}
	x.seen[path] = true
	x.tree = append(x.tree, TreeEntry{Path: path, Kind: "file", Size: size, Fill: x.g.Uint64() | 4, Mode: mode, MTime: x.ts()})
}

func (x *gen) addText(path, text string, mode uint32) {
	if i := strings.LastIndex(path, "/"); i > 0 {
		x.addDir(path[:i])
	}
	x.seen[path] = true
	x.tree = append(x.tree, TreeEntry{Path: path, Kind: "file", Text: text, Mode: mode, MTime: x.ts()})
}

func (x *gen) addKey(path, keyref string) {
	if i := strings.LastIndex(path, "/"); i > 0 {
		x.addDir(path[:i])
	}
	x.seen[path] = true
	x.tree = append(x.tree, TreeEntry{Path: path, Kind: "file", KeyRef: keyref, Mode: 0o600, MTime: x.ts()})
}

func (x *gen) addLink(path, target string) {
	if i := strings.LastIndex(path, "/"); i > 0 {
		x.addDir(path[:i])
	}
	x.seen[path] = true
	x.tree = append(x.tree, TreeEntry{Path: path, Kind: "symlink", Target: target})
}

func (x *gen) size() int {
	if x.opt.Small {
		return Pick(x.g, []int{0, 1, 17, 300, 2048, 5000})
	}
	r := x.g.Float()
	if !x.opt.NoBigFiles && x.g.Bool(0.12) {
		// exactly at, just below and just above the block and buffer sizes
		// the writers use
		return Pick(x.g, []int{512, 4096, 32768, 65536, 131072}) + Pick(x.g, []int{-1, 0, 0, 1})
	}
	switch {
	case r < 0.08:
		return 0
	case r < 0.55:
		return x.g.Range(1, 4000)
	case r < 0.85:
		return x.g.Range(4000, 70000)
	case r < 0.97 || x.opt.NoBigFiles:
		return x.g.Range(131073, 300000) // beyond one 128 KiB zstd block
	default:
		return x.g.Range(1048577, 1400000) // beyond one 1 MiB pgzip block
	}
}

func (x *gen) fileInfo(forDir bool) map[string]any {
	fi := map[string]any{}
	if x.g.Bool(0.25) {
		// everything stated explicitly, or everything but one field: the
		// shapes for which "nothing is left to default" short cuts apply
		t := x.ts()
		fi["owner"] = Pick(x.g, []string{"app", "daemon", "www-data"})
		fi["group"] = Pick(x.g, []string{"app", "adm", "staff"})
		if forDir {
			fi["mode"] = Pick(x.g, []int{0o750, 0o700, 0o1777, 0o2775})
		} else {
			fi["mode"] = Pick(x.g, []int{0o600, 0o640, 0o755, 0o4755, 0o444})
		}
		fi["mtime"] = time.Unix(t, 0).UTC().Format(time.RFC3339)
		fi["_mt"] = t
		if x.g.Bool(0.5) {
			switch Pick(x.g, []string{"owner", "group", "mode", "mtime"}) {
			case "owner":
				delete(fi, "owner")
			case "group":
				delete(fi, "group")
			case "mode":
				delete(fi, "mode")
			case "mtime":
				delete(fi, "mtime")
				delete(fi, "_mt")
			}
		}
		return fi
	}
	if x.g.Bool(0.6) {
		fi["owner"] = Pick(x.g, []string{"app", "daemon", "www-data"})
	}
	if x.g.Bool(0.5) {
		fi["group"] = Pick(x.g, []string{"app", "adm", "staff"})
	}
	if x.g.Bool(0.6) {
		if forDir {
			fi["mode"] = Pick(x.g, []int{0o750, 0o700, 0o1777, 0o2775})
		} else {
			fi["mode"] = Pick(x.g, []int{0o600, 0o640, 0o755, 0o4755, 0o444})
		}
	}
	if x.g.Bool(0.3) {
		t := x.ts()
		fi["mtime"] = time.Unix(t, 0).UTC().Format(time.RFC3339)
		fi["_mt"] = t
	}
	return fi
}

var (
	harnessEraLo = time.Date(2026, 1, 1, 0, 0, 0, 0, time.UTC).Unix()
	harnessEraHi = time.Date(2029, 1, 1, 0, 0, 0, 0, time.UTC).Unix()
)

var allFormats = []string{"deb", "rpm", "apk", "ipk", "archlinux"}

func relevantFormats(typ, pkgr string) []string {
	var out []string
	for _, f := range allFormats {
		if pkgr != "" && pkgr != f {
			continue
		}
		switch typ {
		case "ghost", "doc", "licence", "license", "readme":
			if f != "rpm" {
				continue
			}
		}
		out = append(out, f)
	}
	return out
}

// GenWorld draws one world (source tree + configuration).
func GenWorld(g *Rng, opt GenOpts) World {
	w, _ := GenWorldCfg(g, opt)
	return w
}

// GenWorldCfg also returns the configuration as a tree, for deriving variants.
func GenWorldCfg(g *Rng, opt GenOpts) (World, map[string]any) {
	x := &gen{g: g, opt: opt, seen: map[string]bool{}}
	w := World{Env: map[string]string{}}
	cfg := map[string]any{}
	var entryMTimes []int64

	// ---- identity / metadata ------------------------------------------------
	cfg["name"] = Pick(g, []string{"verifpkg", "foo-bar", "lib.x+y", "a0"})
	// every architecture of the documented GOARCH table
	cfg["arch"] = Pick(g, []string{"amd64", "386", "arm64", "arm5", "arm6", "arm7", "all", "mips", "mipsle", "mips64le", "ppc64le", "s390", "amd64", "arm6"})
	if x.feat("arch_outside_table", 0.15) {
		// legal architecture names that are not keys of the packagers' GOARCH
		// tables (micro-architecture suffixes, distribution names, newer
		// ports): they pass through, or are translated, the same way every time
		cfg["arch"] = Pick(g, []string{"arm64v8", "arm64be", "mips64le-n32", "mipsle-softfloat", "amd64v3", "arm7hf", "riscv64", "loong64", "ppc64", "x86_64", "aarch64", "noarch", "386sse2"})
	}
	cfg["version"] = Pick(g, []string{"1.2.3", "v2.0.1", "0.9.0-beta.1", "3.1.4+git5", "1.0", "2024.01.15"})
	if x.feat("version_schema_none", 0.1) {
		cfg["version_schema"] = "none"
	}
	if x.feat("version_parts", 0.4) {
		if g.Bool(0.5) {
			cfg["release"] = Pick(g, []string{"1", "2", "3.el9"})
		}
		if g.Bool(0.3) {
			cfg["prerelease"] = Pick(g, []string{"rc1", "beta2"})
		}
		if g.Bool(0.3) {
			cfg["version_metadata"] = Pick(g, []string{"git", "build7"})
		}
		if g.Bool(0.3) {
			cfg["epoch"] = Pick(g, []string{"1", "2"})
		}
	}
	if x.feat("metadata", 0.7) {
		cfg["maintainer"] = Pick(g, []string{"Verif Harness <pkg@verif.invalid>", "Jane Doe <jane@example.org>"})
		cfg["description"] = Pick(g, []string{"Sample package", "First line synopsis\nSecond line with more text.\n\nAfter a blank line.", "Ünïcode description ✓"})
		cfg["vendor"] = "VerifCorp"
		cfg["homepage"] = "https://verif.invalid/home"
		cfg["license"] = Pick(g, []string{"MIT", "Apache-2.0"})
		if g.Bool(0.5) {
			cfg["section"] = "utils"
			cfg["priority"] = "extra"
		}
	} else if opt.ForceSign || !g.Bool(0.5) {
		// (a maintainer with an address is needed for derived apk key names)
		cfg["maintainer"] = Pick(g, []string{"Verif Harness <pkg@verif.invalid>", "Verif Harness <pkg@verif.invalid>", "Build Bot <bot@builds.example.us>", "Jean <jean@exemple.fr>"})
	} else {
		x.feats = append(x.feats, "maintainer_unset")
	}
	if x.feat("relations", 0.5) {
		cfg["depends"] = []any{"bash", "libc6 (>= 2.17)"}
		if g.Bool(0.5) {
			cfg["recommends"] = []any{"git"}
			cfg["suggests"] = []any{"curl"}
		}
		if g.Bool(0.5) {
			cfg["conflicts"] = []any{"oldpkg"}
			cfg["replaces"] = []any{"oldpkg"}
			cfg["provides"] = []any{"virtualpkg"}
		}
		if g.Bool(0.3) {
			w.Env["VERIF_DEP"] = "envdep"
			cfg["depends"] = append(cfg["depends"].([]any), "${VERIF_DEP}")
		}
		if x.feat("relation_list_lengths", 0.4) {
			// lists of three to seven names: a list built by appending one
			// element at a time ends with spare capacity for these lengths
			for _, k := range []string{"provides", "depends", "conflicts", "replaces", "recommends", "suggests"} {
				if !g.Bool(0.5) {
					continue
				}
				n := g.Range(3, 7)
				l := make([]any, 0, n)
				for i := 0; i < n; i++ {
					l = append(l, fmt.Sprintf("%s-pkg%d", k[:4], i+1))
				}
				cfg[k] = l
			}
		}
		emptyP := 0.3
		if opt.SharedBias {
			emptyP = 0.6
		}
		if x.feat("list_item_expands_to_nothing", emptyP) {
			// an optional entry whose variable is empty: dropped by the parser,
			// which leaves the list it was in with spare capacity
			w.Env["VERIF_EMPTY"] = ""
			if _, ok := cfg["provides"]; !ok {
				cfg["provides"] = []any{"virtualpkg"}
			}
			for _, k := range []string{"depends", "recommends", "suggests", "conflicts", "replaces", "provides"} {
				l, ok := cfg[k].([]any)
				if !ok || !g.Bool(0.7) {
					continue
				}
				pos := g.Intn(len(l) + 1)
				l = append(append(append([]any{}, l[:pos]...), "${VERIF_EMPTY}"), l[pos:]...)
				cfg[k] = l
			}
		}
		if x.feat("duplicate_relations", 0.25) {
			// adjacent identical entries (two variables expanding to the same
			// package, a copy-paste): legal, and kept as written
			d := cfg["depends"].([]any)
			cfg["depends"] = append([]any{d[0], d[0]}, d[1:]...)
			cfg["provides"] = []any{"virtualpkg", "virtualpkg", "otherpkg"}
		}
	}

	// ---- mtime ---------------------------------------------------------------
	mtimeMode := ""
	if opt.FixMTime {
		mtimeMode = Pick(g, []string{"field", "env"})
	} else {
		mtimeMode = Pick(g, []string{"field", "env", "field", ""})
	}
	pkgMTime := x.ts()
	if mtimeMode != "" && x.feat("mtime_boundary", 0.07) {
		// legal values at the edges of what "a time was configured" can be
		// confused with: the Unix epoch itself (SOURCE_DATE_EPOCH=0 is in real
		// use), one second after it, the DOS epoch, the last 32-bit second
		pkgMTime = Pick(g, []int64{0, 0, 1, 315532800, 2147483647})
	}
	switch mtimeMode {
	case "field":
		cfg["mtime"] = time.Unix(pkgMTime, 0).UTC().Format(time.RFC3339)
	case "env":
		w.Env["SOURCE_DATE_EPOCH"] = fmt.Sprint(pkgMTime)
	}
	w.MTimeFixed = mtimeMode
	if mtimeMode != "" {
		w.MTime = pkgMTime
	}
	x.feats = append(x.feats, "mtime:"+mtimeMode)

	if x.feat("umask", 0.3) {
		cfg["umask"] = Pick(g, []int{0o022, 0o027, 0o077})
	}
	disableGlob := x.feat("disable_globbing", 0.2)
	if disableGlob {
		cfg["disable_globbing"] = true
	}

	// ---- contents --------------------------------------------------------------
	var contents []gContent
	add := func(c gContent) {
		if fi, ok := c.m["file_info"].(map[string]any); ok {
			if mt, ok := fi["_mt"].(int64); ok {
				entryMTimes = append(entryMTimes, mt)
			}
			delete(fi, "_mt")
			if len(fi) == 0 {
				delete(c.m, "file_info")
			}
		}
		if t, ok := c.m["type"].(string); ok {
			c.typ = t
		}
		if p, ok := c.m["packager"].(string); ok {
			c.pkgr = p
		}
		contents = append(contents, c)
	}
	fiP := 0.35
	if opt.SharedBias {
		fiP = 0.7
	}

	globFirstDst := ""
	// two files with the same base name in different directories (used by the
	// invalid-setting class "flattened basenames collide"; not referenced by
	// the valid configuration)
	x.addText("src/dup/a/index.html", "<p>a</p>\n", 0o644)
	x.addText("src/dup/b/index.html", "<p>b, longer</p>\n", 0o644)
	// main binary (always: gives every format a payload)
	x.addFile("src/bin/app", x.size(), Pick(g, []uint32{0o755, 0o775, 0o700}))
	{
		m := map[string]any{"src": "@SRC@src/bin/app", "dst": "/usr/bin/app"}
		if g.Bool(fiP) {
			m["file_info"] = x.fileInfo(false)
		}
		add(gContent{m: m, refPath: "src/bin/app", refKind: "content", single: true})
	}
	if x.feat("second_file_dstdir", 0.4) {
		x.addFile("src/bin/tool", x.size(), 0o755)
		add(gContent{m: map[string]any{"src": "@SRC@src/bin/tool", "dst": "/usr/local/bin/"}, refPath: "src/bin/tool", refKind: "content", single: true})
	}
	if x.feat("config", 0.6) {
		x.addFile("src/etc/app.conf", g.Range(0, 900), Pick(g, []uint32{0o644, 0o664, 0o600}))
		m := map[string]any{"src": "@SRC@src/etc/app.conf", "dst": "/etc/app/app.conf", "type": Pick(g, []string{"config", "config|noreplace", "config|missingok"})}
		if g.Bool(fiP) {
			m["file_info"] = x.fileInfo(false)
		}
		add(gContent{m: m, refPath: "src/etc/app.conf", refKind: "content", single: true})
	}
	if x.feat("glob", 0.5) {
		n := g.Range(1, 4)
		for i := 0; i < n; i++ {
			x.addFile(fmt.Sprintf("src/share/g/f%d.txt", i), x.sizeSmall(), 0o644)
		}
		globFirstDst = "/usr/share/app/f0.txt"
		deep := g.Bool(0.5)
		if deep {
			x.addFile("src/share/g/sub/deep.txt", x.sizeSmall(), 0o640)
		}
		x.addFile("src/share/g/other.dat", 10, 0o644)
		var src string
		switch {
		case disableGlob:
			src = "@SRC@src/share/g" // directory source: contents below it
		case g.Bool(0.5) || !deep:
			src = "@SRC@src/share/g/*.txt"
		default:
			src = "@SRC@src/share/g/**/*" // matches only below nested directories
			globFirstDst = "/usr/share/app/deep.txt"
		}
		m := map[string]any{"src": src, "dst": "/usr/share/app"}
		if g.Bool(fiP) {
			fi := x.fileInfo(false)
			m["file_info"] = fi
		}
		add(gContent{m: m, refPath: "src/share/g", refKind: "glob"})
	}
	if x.feat("tree", 0.45) {
		x.addFile("src/tree/t1/f1", x.sizeSmall(), 0o644)
		x.addFile("src/tree/t1/n/f2", x.sizeSmall(), 0o755)
		x.addDir("src/tree/empty")
		if g.Bool(0.5) {
			x.addLink("src/tree/t1/lnk", "f1")
		}
		m := map[string]any{"src": "@SRC@src/tree", "dst": "/opt/app/tree", "type": "tree"}
		if g.Bool(fiP) {
			m["file_info"] = x.fileInfo(true)
		}
		add(gContent{m: m, refPath: "src/tree", refKind: "tree"})
	}
	if opt.ManyFilesP > 0 && x.feat("many_files", opt.ManyFilesP) {
		n := g.Range(400, 1300)
		if x.feat("huge_tree", 0.25) {
			// thousands of entries: the metadata members (.MTREE, control
			// tarballs, rpm header) themselves become large
			n = g.Range(4100, 6500)
		}
		for i := 0; i < n; i++ {
			x.addFile(fmt.Sprintf("src/many/d%02d/f%04d", i%17, i), g.Intn(24), 0o644)
		}
		add(gContent{m: map[string]any{"src": "@SRC@src/many", "dst": "/opt/app/many", "type": "tree"}, refPath: "src/many", refKind: "tree"})
	}
	if x.feat("dir", 0.5) {
		m := map[string]any{"dst": "/var/lib/app", "type": "dir"}
		if g.Bool(fiP + 0.2) {
			m["file_info"] = x.fileInfo(true)
		}
		add(gContent{m: m})
	}
	symP, hostP := 0.5, 0.5
	if opt.SharedBias {
		symP, hostP = 0.8, 0.7
	}
	if x.feat("symlink", symP) {
		target := Pick(g, []string{"/usr/bin/app", "/usr/bin/app", "../lib/libverif.so.1", "app", "./../share/verif/target"})
		if strings.HasPrefix(target, "/") && !opt.NoHostLinks && g.Bool(hostP) {
			target = Pick(g, []string{"/etc/hostname", "/etc/passwd", "/bin/sh"})
			x.feats = append(x.feats, "symlink_host_target")
		}
		m := map[string]any{"src": target, "dst": "/usr/bin/app-link", "type": "symlink"}
		if g.Bool(fiP) {
			fi := x.fileInfo(false)
			if opt.SharedBias && g.Bool(0.7) {
				delete(fi, "mode") // mode then comes from stat(target) minus the format's umask
				fi["owner"] = "app"
			}
			m["file_info"] = fi
		}
		add(gContent{m: m})
	}
	if x.feat("ghost", 0.35) {
		m := map[string]any{"dst": "/var/log/app.log", "type": "ghost"}
		// a ghost has no source to take anything from: what is not stated is
		// defaulted by the packager (rpm: mode 0644), so each shape of "what
		// is stated" is its own case
		switch Pick(g, []string{"none", "random", "random", "all-but-mode", "all"}) {
		case "random":
			if g.Bool(fiP) {
				m["file_info"] = x.fileInfo(false)
			}
		case "all-but-mode", "all":
			t := x.ts()
			fi := map[string]any{"owner": "app", "group": "adm", "mtime": time.Unix(t, 0).UTC().Format(time.RFC3339), "_mt": t}
			if g.Bool(0.5) {
				fi["mode"] = 0o640
			}
			m["file_info"] = fi
		}
		add(gContent{m: m})
	}
	if x.feat("rpmdoc", 0.35) {
		x.addText("src/doc/README.md", "# readme\nhello\n", 0o644)
		add(gContent{m: map[string]any{"src": "@SRC@src/doc/README.md", "dst": "/usr/share/doc/app/README.md", "type": Pick(g, []string{"doc", "readme", "license", "licence"})}, refPath: "src/doc/README.md", refKind: "content", single: true})
	}
	if x.feat("disk_special_mode", 0.15) {
		// a source that carries setuid / setgid / sticky on disk (modes are
		// taken from the source when file_info gives none): the entries for
		// which "not an ordinary file" short cuts apply
		x.addFile("src/bin/helper", x.sizeSmall(), Pick(g, []uint32{0o4755, 0o2755, 0o1755, 0o6755}))
		// (addressed to one packager, never apk: apk cannot store such a mode
		// taken from disk and says so - "PAX cannot encode Mode" - which is
		// loud, hence no business of these checks)
		add(gContent{m: map[string]any{"src": "@SRC@src/bin/helper", "dst": "/usr/bin/app-helper", "packager": Pick(g, []string{"ipk", "ipk", "deb", "rpm", "archlinux"})}, refPath: "src/bin/helper", refKind: "content", single: true})
	}
	if x.feat("per_packager", 0.4) {
		p := Pick(g, allFormats)
		x.addFile("src/only/one.bin", x.sizeSmall(), 0o755)
		add(gContent{m: map[string]any{"src": "@SRC@src/only/one.bin", "dst": "/usr/lib/app/only-" + p, "packager": p}, refPath: "src/only/one.bin", refKind: "content", single: true})
	}
	if x.feat("disk_symlink", 0.3) {
		x.addLink("src/dlink", "bin/app")
		add(gContent{m: map[string]any{"src": "@SRC@src/dlink", "dst": "/usr/bin/app-dlink"}, refPath: "src/dlink", refKind: "content", single: true})
	}
	if opt.LinkShapes && x.feat("disk_symlink_outside", 0.35) {
		// links in the source tree that name a path which is not a source: it
		// lies outside the tree (next to its root, so that each copy of the
		// tree finds something else there: see OutsideTarget). A link is
		// shipped as a link; what it points to on the build host is no input.
		x.addLink("src/links/outlink", "../../../verif-outside/t")
		x.addFile("src/links/plain.txt", x.sizeSmall(), 0o644)
		if g.Bool(0.5) && !disableGlob {
			add(gContent{m: map[string]any{"src": "@SRC@src/links/*", "dst": "/usr/share/links/"}, refPath: "src/links/plain.txt", refKind: "content"})
		} else {
			add(gContent{m: map[string]any{"src": "@SRC@src/links/outlink", "dst": "/usr/share/links/outlink"}, refPath: "src/links/plain.txt", refKind: "content", single: true})
		}
	}
	if opt.LinkShapes && x.feat("device_node", 0.15) {
		// a root file system image being packaged carries device nodes
		x.tree = append(x.tree, TreeEntry{Path: "src/rootfs/dev/null", Kind: "chardev", MTime: x.ts()})
		x.addDir("src/rootfs/dev")
		// (deb only: it is the format whose packager knows device members; apk
		// refuses such a source loudly)
		add(gContent{m: map[string]any{"src": "@SRC@src/rootfs/dev/null", "dst": "/opt/rootfs/dev/null", "packager": "deb"}, pkgr: "deb", refPath: "src/rootfs/dev/null", refKind: "content", single: true})
	}
	if opt.LinkShapes && x.feat("disk_symlink_to_dir", 0.3) {
		// the usual "current release" link: names a directory of the tree
		x.addFile("src/rel/v1/a.txt", x.sizeSmall(), 0o644)
		x.addFile("src/rel/v1/sub/b.txt", x.sizeSmall(), 0o644)
		x.addLink("src/rel/current", "v1")
		add(gContent{m: map[string]any{"src": "@SRC@src/rel/current", "dst": "/usr/share/rel/current"}, refPath: "src/rel/v1/a.txt", refKind: "content", single: true})
	}
	if x.feat("odd_names", 0.3) {
		if disableGlob {
			x.addFile("src/odd/we[i]rd {n}*.txt", x.sizeSmall(), 0o644)
			add(gContent{m: map[string]any{"src": "@SRC@src/odd/we[i]rd {n}*.txt", "dst": "/usr/share/odd/we[i]rd {n}*.txt"}, refPath: "src/odd/we[i]rd {n}*.txt", refKind: "content", single: true})
		} else {
			x.addFile("src/odd/with space.txt", x.sizeSmall(), 0o644)
			add(gContent{m: map[string]any{"src": "@SRC@src/odd/with space.txt", "dst": "/usr/share/odd/with space.txt"}, refPath: "src/odd/with space.txt", refKind: "content", single: true})
		}
	}
	if x.feat("long_names", 0.15) {
		// names beyond the classic tar limits (100-byte name, 155-byte prefix)
		// and non-ASCII names: the archive writers switch to PAX / GNU long
		// name records, which can carry extra fields
		long := strings.Repeat("long-name-segment-", 7) + "end.txt" // 133 bytes
		x.addFile("src/long/"+long, x.sizeSmall(), 0o644)
		deep := "/usr/share/" + strings.Repeat("deeply-nested-directory-name/", 9) // > 255 bytes
		add(gContent{m: map[string]any{"src": "@SRC@src/long/" + long, "dst": deep + long}, refPath: "src/long/" + long, refKind: "content", single: true})
		uni := "\u00fcn\u00efc\u00f6d\u00e9-\u0444\u0430\u0439\u043b.txt"
		x.addFile("src/long/"+uni, x.sizeSmall(), 0o644)
		add(gContent{m: map[string]any{"src": "@SRC@src/long/" + uni, "dst": "/usr/share/uni/" + uni}, refPath: "src/long/" + uni, refKind: "content", single: true})
	}
	if x.feat("expand", 0.15) {
		w.Env["VERIF_REL"] = "expanded"
		x.addFile("src/exp/e.txt", 40, 0o644)
		add(gContent{m: map[string]any{"src": "@SRC@src/exp/e.txt", "dst": "/usr/share/${VERIF_REL}/e.txt", "expand": true}, refPath: "src/exp/e.txt", refKind: "content", single: true})
	}

	// mostly entries that are addressed to single packagers, directly under /
	// (no implicit parent directories): the list a packager prepares is then
	// shorter than the configured list
	if opt.SharedBias && x.feat("foreign_heavy", 0.15) {
		contents = contents[:1]
		contents[0].m["dst"] = "/app"
		for i := 0; i < 5; i++ {
			p := Pick(g, allFormats)
			path := fmt.Sprintf("src/foreign/f%d.bin", i)
			x.addFile(path, x.sizeSmall(), 0o644)
			contents = append(contents, gContent{m: map[string]any{"src": "@SRC@" + path, "dst": fmt.Sprintf("/only-%s-%d", p, i), "packager": p}, pkgr: p, refPath: path, refKind: "content", single: true})
		}
		globFirstDst = ""
	}
	// a meta package: no contents at all (empty payload)
	if x.feat("no_contents", 0.07) {
		contents = nil
		globFirstDst = ""
	}
	if len(contents) > 0 && opt.PartialInvalidP > 0 && x.feat("partial_invalid", opt.PartialInvalidP) {
		kinds := []string{"pkgr_collision", "platform", "rpm_compression"}
		globIdx := -1
		for i, c := range contents {
			if c.refKind == "glob" {
				globIdx = i
			}
		}
		if globFirstDst != "" && globIdx >= 0 {
			kinds = append(kinds, "rpm_ghost_collides_glob", "rpm_ghost_collides_glob", "rpm_ghost_collides_glob", "pkgr_collides_glob", "pkgr_collides_glob", "pkgr_collides_glob")
		}
		// where the colliding entry goes: mostly before the expanding entry,
		// so that the expanding entry is the one that hits the occupied place
		posNear := func() int {
			if globIdx >= 0 && g.Bool(0.7) {
				return g.Intn(globIdx + 1)
			}
			return g.Intn(len(contents) + 1)
		}
		switch k := Pick(g, kinds); k {
		case "rpm_ghost_collides_glob":
			// only rpm sees the ghost, so only rpm's preparation collides
			c := gContent{m: map[string]any{"dst": globFirstDst, "type": "ghost"}, typ: "ghost"}
			pos := posNear()
			contents = append(contents[:pos], append([]gContent{c}, contents[pos:]...)...)
			w.ExpectFail = []string{"rpm"}
		case "pkgr_collides_glob":
			// a per-packager entry occupies a place the glob expands to
			p := Pick(g, allFormats)
			c := gContent{m: map[string]any{"src": "@SRC@src/bin/app", "dst": globFirstDst, "packager": p}, pkgr: p, refPath: "src/bin/app", refKind: "content", single: true}
			pos := posNear()
			contents = append(contents[:pos], append([]gContent{c}, contents[pos:]...)...)
			w.ExpectFail = []string{p}
		case "pkgr_collision":
			p := Pick(g, allFormats)
			c := gContent{m: map[string]any{"src": "@SRC@src/bin/app", "dst": contents[0].m["dst"], "packager": p}, pkgr: p, refPath: "src/bin/app", refKind: "content", single: true}
			pos := g.Intn(len(contents) + 1)
			contents = append(contents[:pos], append([]gContent{c}, contents[pos:]...)...)
			w.ExpectFail = []string{p}
		case "platform":
			cfg["platform"] = "darwin"
			w.ExpectFail = []string{"apk", "archlinux"}
		case "rpm_compression":
			w.ExpectFail = []string{"rpm"}
			x.feats = append(x.feats, "rpm_compression_invalid")
		}
	}

	// entries for single packagers listed after everything shared (where
	// people put them): a list prepared for any other format is a proper
	// prefix of the configured list, the shape for which "no copy needed"
	// short cuts apply
	ftP := 0.08
	if opt.SharedBias {
		ftP = 0.3
	}
	if len(contents) > 0 && x.feat("foreign_tail", ftP) {
		p := Pick(g, allFormats)
		for i := 0; i < 1+g.Intn(2); i++ {
			path := fmt.Sprintf("src/tail/t%d.bin", i)
			x.addFile(path, x.sizeSmall(), 0o644)
			add(gContent{m: map[string]any{"src": "@SRC@" + path, "dst": fmt.Sprintf("/usr/lib/app/tail-%s-%d", p, i), "packager": p}, refPath: path, refKind: "content", single: true})
			if g.Bool(0.3) {
				p = Pick(g, allFormats)
			}
		}
	}

	base := make([]any, 0, len(contents))
	for _, c := range contents {
		base = append(base, c.m)
	}
	if len(base) > 0 {
		cfg["contents"] = base
	}

	// ---- scripts ------------------------------------------------------------
	type scriptRef struct {
		path    string
		formats []string
	}
	var scriptRefs []scriptRef
	mkScript := func(name string) string {
		p := "scripts/" + name + ".sh"
		body := "#!/bin/sh\necho " + name + "\n"
		if g.Bool(0.2) {
			body = "#!/bin/sh\nexit 0" // no trailing newline
		}
		if !x.seen[p] {
			x.addText(p, body, 0o755)
		}
		return p
	}
	commonScripts := map[string]any{}
	if x.feat("scripts", 0.55) {
		for _, s := range []string{"preinstall", "postinstall", "preremove", "postremove"} {
			if g.Bool(0.6) {
				p := mkScript(s)
				commonScripts[s] = "@SRC@" + p
			}
		}
		if len(commonScripts) > 0 {
			cfg["scripts"] = commonScripts
		}
	}
	rpmBlock := map[string]any{}
	debBlock := map[string]any{}
	apkBlock := map[string]any{}
	archBlock := map[string]any{}
	ipkBlock := map[string]any{}
	if x.feat("format_scripts", 0.35) {
		if g.Bool(0.6) {
			m := map[string]any{}
			for _, s := range []string{"pretrans", "posttrans", "verify"} {
				if g.Bool(0.6) {
					p := mkScript("rpm-" + s)
					m[s] = "@SRC@" + p
					scriptRefs = append(scriptRefs, scriptRef{p, []string{"rpm"}})
				}
			}
			if len(m) > 0 {
				rpmBlock["scripts"] = m
			}
		}
		if g.Bool(0.6) {
			m := map[string]any{}
			for _, s := range []string{"rules", "templates", "config"} {
				if g.Bool(0.6) {
					p := mkScript("deb-" + s)
					m[s] = "@SRC@" + p
					scriptRefs = append(scriptRefs, scriptRef{p, []string{"deb"}})
				}
			}
			if len(m) > 0 {
				debBlock["scripts"] = m
			}
		}
		if g.Bool(0.6) {
			m := map[string]any{}
			for _, s := range []string{"preupgrade", "postupgrade"} {
				if g.Bool(0.7) {
					p := mkScript("apk-" + s)
					m[s] = "@SRC@" + p
					scriptRefs = append(scriptRefs, scriptRef{p, []string{"apk"}})
				}
			}
			if len(m) > 0 {
				apkBlock["scripts"] = m
			}
		}
		if g.Bool(0.6) {
			m := map[string]any{}
			for _, s := range []string{"preupgrade", "postupgrade"} {
				if g.Bool(0.7) {
					p := mkScript("arch-" + s)
					m[s] = "@SRC@" + p
					scriptRefs = append(scriptRefs, scriptRef{p, []string{"archlinux"}})
				}
			}
			if len(m) > 0 {
				archBlock["scripts"] = m
			}
		}
	}

	// ---- changelog -----------------------------------------------------------
	hasChangelog := x.feat("changelog", 0.35)
	if hasChangelog {
		d1 := time.Unix(x.ts(), 0).UTC().Format(time.RFC3339)
		d2 := time.Unix(x.ts(), 0).UTC().Format(time.RFC3339)
		dateLine := "  date: " + d1 + "\n"
		if g.Bool(0.3) {
			dateLine = "" // an entry without a date
			x.feats = append(x.feats, "changelog_undated_entry")
		}
		x.addText("changelog.yaml", "- semver: 1.2.3\n"+dateLine+"  packager: Verif <pkg@verif.invalid>\n  deb:\n    urgency: medium\n    distributions:\n      - stable\n  changes:\n    - commit: 2c499787328348f09ae1e8f03757c6483b9a938a\n      note: second note\n- semver: 1.2.2\n  date: "+d2+"\n  packager: Verif <pkg@verif.invalid>\n  changes:\n    - commit: 3c499787328348f09ae1e8f03757c6483b9a938b\n      note: first note\n", 0o644)
		cfg["changelog"] = "@SRC@changelog.yaml"
	}

	// ---- format blocks -------------------------------------------------------
	debP := 0.5
	if opt.SharedBias {
		debP = 0.8
	}
	if x.feat("deb_block", debP) {
		debBlock["compression"] = Pick(g, []string{"gzip", "xz", "zstd", "none", "zstd"})
		x.feats = append(x.feats, "debc:"+debBlock["compression"].(string))
		if g.Bool(0.4) {
			debBlock["fields"] = map[string]any{"Bugs": "https://verif.invalid/bugs", "X-Custom": "v"}
			if g.Bool(0.3) {
				// two names that differ only in case: both are written, in
				// sorted order (whatever a reader of the package makes of it)
				debBlock["fields"].(map[string]any)["x-custom"] = "w"
			}
		}
		if g.Bool(0.3) {
			debBlock["triggers"] = map[string]any{"interest": []any{"some-trigger"}, "activate_noawait": []any{"other-trigger"}}
			if g.Bool(0.5) {
				// a name repeated in a row (kept as written)
				debBlock["triggers"] = map[string]any{"interest": []any{"/usr/share/icons", "/usr/share/icons", "/usr/share/applications"}, "activate": []any{"t1", "t1"}}
			}
		}
		if g.Bool(0.3) {
			debBlock["breaks"] = []any{"brokenpkg (<< 1.0)"}
			debBlock["predepends"] = []any{"dpkg (>= 1.17)"}
		}
	}
	if x.feat("rpm_block", 0.5) {
		rpmBlock["compression"] = Pick(g, []string{"gzip", "gzip:9", "xz", "lzma", "zstd", "zstd:3", "gzip:1"})
		x.feats = append(x.feats, "rpmc:"+rpmBlock["compression"].(string))
		if g.Bool(0.5) {
			rpmBlock["group"] = "Applications/System"
			rpmBlock["summary"] = "explicit summary"
			rpmBlock["packager"] = "Verif Packager <rpm@verif.invalid>"
		}
		if g.Bool(0.5) {
			rpmBlock["prefixes"] = []any{"/usr", "/opt"}
		}
	}
	if opt.SharedBias && x.feat("same_codec", 0.3) {
		// every format that can, uses one compressor family at once (apk and
		// ipk always gzip, archlinux always zstd): process-wide state of a
		// compression library is then shared by the packagings of one run
		c := Pick(g, []string{"zstd", "zstd", "gzip", "xz"})
		debBlock["compression"] = c
		rpmBlock["compression"] = c
	}
	if opt.FixMTime || g.Bool(0.7) {
		rpmBlock["buildhost"] = "buildhost.verif.invalid"
	}
	if x.feat("arch_block", 0.3) {
		archBlock["pkgbase"] = "verifbase"
		archBlock["packager"] = "Verif Arch <arch@verif.invalid>"
	}
	ipkP := 0.3
	if opt.SharedBias {
		ipkP = 0.6
	}
	if x.feat("ipk_block", ipkP) {
		ipkBlock["abi_version"] = "3"
		ipkBlock["tags"] = []any{"t1", "t2"}
		ipkBlock["fields"] = map[string]any{"Bugs": "https://verif.invalid/bugs", "Priority": "should-be-stripped", "Zz-Custom": "z"}
		if g.Bool(0.4) {
			ipkBlock["fields"].(map[string]any)["zz-custom"] = "lower"
			ipkBlock["fields"].(map[string]any)["BUGS"] = "https://verif.invalid/BUGS"
		}
		if g.Bool(0.5) {
			ipkBlock["alternatives"] = []any{map[string]any{"priority": 10, "target": "/usr/bin/app", "link_name": "/usr/bin/app-alt"}}
		}
	}

	// ---- signing -------------------------------------------------------------
	signP := 0.3
	if opt.SharedBias {
		signP = 0.45 // signing helpers are code shared by deb and rpm
	}
	sign := opt.ForceSign || (!opt.NoSigning && x.g.Bool(signP))
	if opt.NoSigning {
		sign = false
	}
	if sign {
		x.feats = append(x.feats, "signing")
		kr := g.Float()
		prot := kr >= 0.4
		armored := g.Bool(0.5)
		key := "pgp_a"
		if prot {
			key = "pgp_b"
			if kr >= 0.7 {
				key = "pgp_c" // protected, with a signing subkey
			}
			if g.Bool(0.5) {
				w.Env["NFPM_PASSPHRASE"] = KeyPass
			} else {
				w.Env["NFPM_DEB_PASSPHRASE"] = KeyPass
				w.Env["NFPM_RPM_PASSPHRASE"] = KeyPass
				w.Env["NFPM_PASSPHRASE"] = "wrong general passphrase"
			}
		}
		ext := ".gpg"
		if armored {
			ext = ".asc"
		}
		x.addKey("keys/pgp"+ext, key+ext)
		w.KeyName = key
		sig := map[string]any{"key_file": "@SRC@keys/pgp" + ext}
		if g.Bool(0.3) || key == "pgp_c" && g.Bool(0.5) {
			sig["key_id"] = keyID(key)
			if key == "pgp_c" && g.Bool(0.6) {
				sig["key_id"] = keyID("pgp_c.sub") // names the signing subkey
				x.feats = append(x.feats, "key_id_subkey")
			}
		}
		debSig := map[string]any{}
		for k, v := range sig {
			debSig[k] = v
		}
		mth := g.Intn(5)
		if opt.SharedBias && g.Bool(0.3) {
			mth = 3 // dpkg-sig: the method with the most code of its own
		}
		switch mth {
		case 0:
			debSig["type"] = "origin"
		case 1:
			debSig["type"] = "maint"
		case 2:
			debSig["type"] = "archive"
		case 3:
			debSig["method"] = "dpkg-sig"
			if g.Bool(0.5) {
				debSig["type"] = "builder"
				debSig["signer"] = "Verif Signer <sign@verif.invalid>"
			}
		}
		debBlock["signature"] = debSig
		rpmSig := map[string]any{}
		for k, v := range sig {
			rpmSig[k] = v
		}
		rpmBlock["signature"] = rpmSig
		// apk: RSA key
		rsaKey := "rsa_a.priv"
		if prot {
			// protected RSA key reads NFPM_APK_PASSPHRASE or the general one
			rsaKey = "rsa_a.enc.priv"
			if w.Env["NFPM_PASSPHRASE"] != KeyPass {
				w.Env["NFPM_APK_PASSPHRASE"] = KeyPass
			}
		} else if g.Bool(0.3) {
			rsaKey = "rsa_a.pkcs8.priv"
		}
		x.addKey("keys/apk.rsa", rsaKey)
		apkSig := map[string]any{"key_file": "@SRC@keys/apk.rsa"}
		if _, hasMaint := cfg["maintainer"]; g.Bool(0.5) || !hasMaint {
			// (names as people choose them: a word, an address, an abuild-style
			// name with a hex suffix, with the extension already there)
			apkSig["key_name"] = Pick(g, []string{"verifkey", "verifkey", "releases", "alice@example.us", "verif-5f3c2a1b", "verifkey.rsa.pub", "repo.pub"})
		}
		apkBlock["signature"] = apkSig
		w.Signed = []string{"deb", "rpm", "apk"}
		if g.Bool(0.3) {
			x.feats = append(x.feats, "signature_in_overrides")
		}
		if _, has := sig["key_id"]; !has && g.Bool(0.35) {
			x.feats = append(x.feats, "key_id_in_overrides")
		}
	}

	if x.feat("format_arch_override", 0.25) {
		// the documented per-format architecture overrides (used verbatim)
		for _, fa := range [][2]string{{"deb", "armel"}, {"rpm", "ia64"}, {"apk", "armhf"}, {"archlinux", "pentium4"}, {"ipk", "mips_24kc"}} {
			if g.Bool(0.5) {
				switch fa[0] {
				case "deb":
					debBlock["arch"] = fa[1]
				case "rpm":
					rpmBlock["arch"] = fa[1]
				case "apk":
					apkBlock["arch"] = fa[1]
				case "archlinux":
					archBlock["arch"] = fa[1]
				case "ipk":
					ipkBlock["arch"] = fa[1]
				}
			}
		}
	}
	if g.Bool(0.15) {
		ipkBlock["essential"] = true
		ipkBlock["auto_installed"] = true
		ipkBlock["predepends"] = []any{"busybox"}
	}
	for _, f := range x.feats {
		if f == "rpm_compression_invalid" {
			rpmBlock["compression"] = "brotli"
		}
	}
	repP := 0.2
	if opt.SharedBias {
		repP = 0.35
	}
	if x.feat("repeated_list_items", repP) {
		// any list of names may carry the same name twice (copy-paste, two
		// variables with one value): legal, and kept as written
		var rep func(m map[string]any)
		rep = func(m map[string]any) {
			keys := make([]string, 0, len(m))
			for k := range m {
				keys = append(keys, k)
			}
			sort.Strings(keys)
			for _, k := range keys {
				switch v := m[k].(type) {
				case map[string]any:
					if k != "signature" && k != "fields" {
						rep(v)
					}
				case []any:
					if len(v) == 0 || !g.Bool(0.6) {
						continue
					}
					if _, isStr := v[0].(string); !isStr {
						continue
					}
					if g.Bool(0.5) {
						m[k] = append(append([]any{}, v...), v[0]) // repeated at the end
					} else {
						m[k] = append([]any{v[0]}, v...) // twice in a row
					}
				}
			}
		}
		for _, b := range []map[string]any{debBlock, rpmBlock, apkBlock, archBlock, ipkBlock} {
			rep(b)
		}
	}
	if len(debBlock) > 0 {
		cfg["deb"] = debBlock
	}
	if len(rpmBlock) > 0 {
		cfg["rpm"] = rpmBlock
	}
	if len(apkBlock) > 0 {
		cfg["apk"] = apkBlock
	}
	if len(archBlock) > 0 {
		cfg["archlinux"] = archBlock
	}
	if len(ipkBlock) > 0 {
		cfg["ipk"] = ipkBlock
	}

	// ---- overrides -----------------------------------------------------------
	// effective contents / scripts per format for the reference table
	effContents := map[string][]gContent{}
	effScripts := map[string]map[string]string{}
	for _, f := range allFormats {
		effContents[f] = contents
		m := map[string]string{}
		for _, s := range []string{"preinstall", "postinstall", "preremove", "postremove"} {
			if v, ok := commonScripts[s].(string); ok {
				m[s] = strings.TrimPrefix(v, "@SRC@")
			}
		}
		effScripts[f] = m
	}
	ovP := 0.4
	if opt.SharedBias {
		ovP = 0.75
	}
	if x.feat("overrides", ovP) {
		ov := map[string]any{}
		nf := g.Range(1, 3)
		fs := append([]string{}, allFormats...)
		g.Shuffle(len(fs), func(i, j int) { fs[i], fs[j] = fs[j], fs[i] })
		for _, f := range fs[:nf] {
			o := map[string]any{}
			if g.Bool(0.5) {
				o["depends"] = []any{"override-dep-" + f}
			}
			if g.Bool(0.4) {
				o["umask"] = Pick(g, []int{0o077, 0o027, 0o007})
			}
			if g.Bool(0.3) {
				p := mkScript("ov-" + f + "-postinstall")
				o["scripts"] = map[string]any{"postinstall": "@SRC@" + p}
				effScripts[f]["postinstall"] = p
			}
			if g.Bool(0.3) && !contains(w.ExpectFail, f) {
				// wholesale replacement of the contents list for this format
				var list []gContent
				for _, c := range contents {
					if g.Bool(0.6) {
						list = append(list, c)
					}
				}
				p := "src/ov/" + f + ".bin"
				x.addFile(p, x.sizeSmall(), 0o755)
				list = append(list, gContent{m: map[string]any{"src": "@SRC@" + p, "dst": "/usr/lib/app/ov-" + f}, refPath: p, refKind: "content", single: true})
				var l []any
				for _, c := range list {
					l = append(l, c.m)
				}
				o["contents"] = l
				effContents[f] = list
			}
			if len(o) > 0 {
				ov[f] = o
			}
		}
		if len(ov) > 0 {
			cfg["overrides"] = ov
		}
	}
	// the documentation allows the format blocks inside overrides too
	hasFeat := func(name string) bool {
		for _, f := range x.feats {
			if f == name {
				return true
			}
		}
		return false
	}
	if hasFeat("signature_in_overrides") || hasFeat("key_id_in_overrides") {
		ov, _ := cfg["overrides"].(map[string]any)
		if ov == nil {
			ov = map[string]any{}
		}
		for _, f := range []string{"deb", "rpm", "apk"} {
			blk, _ := cfg[f].(map[string]any)
			sigBlk, _ := blk["signature"].(map[string]any)
			if sigBlk == nil {
				continue
			}
			fo, _ := ov[f].(map[string]any)
			if fo == nil {
				fo = map[string]any{}
			}
			inner, _ := fo[f].(map[string]any)
			if inner == nil {
				inner = map[string]any{}
			}
			if hasFeat("signature_in_overrides") {
				// the whole signature block lives only in overrides.<f>.<f>
				inner["signature"] = sigBlk
				delete(blk, "signature")
				if len(blk) == 0 {
					delete(cfg, f)
				}
			} else if f != "apk" && g.Bool(0.6) {
				// only the key id is format-specific
				inner["signature"] = map[string]any{"key_id": keyID(w.KeyName)}
			}
			if len(inner) > 0 {
				fo[f] = inner
				ov[f] = fo
			}
		}
		if len(ov) > 0 {
			cfg["overrides"] = ov
		}
	}

	// ---- reference table -------------------------------------------------------
	refMap := map[string]*Ref{}
	var refOrder []string
	addRef := func(path, kind string, single bool, formats []string) {
		if path == "" || len(formats) == 0 {
			return
		}
		k := kind + "|" + path
		r, ok := refMap[k]
		if !ok {
			r = &Ref{Path: path, Kind: kind, Single: single}
			refMap[k] = r
			refOrder = append(refOrder, k)
		}
		for _, f := range formats {
			dup := false
			for _, e := range r.Formats {
				if e == f {
					dup = true
				}
			}
			if !dup {
				r.Formats = append(r.Formats, f)
			}
		}
	}
	for _, f := range allFormats {
		for _, c := range effContents[f] {
			rel := false
			for _, rf := range relevantFormats(c.typ, c.pkgr) {
				if rf == f {
					rel = true
				}
			}
			if rel {
				addRef(c.refPath, c.refKind, c.single, []string{f})
			}
		}
		keys := make([]string, 0, 4)
		for k := range effScripts[f] {
			keys = append(keys, k)
		}
		sort.Strings(keys)
		for _, k := range keys {
			addRef(effScripts[f][k], "script", true, []string{f})
		}
	}
	for _, s := range scriptRefs {
		addRef(s.path, "script", true, s.formats)
	}
	if hasChangelog {
		addRef("changelog.yaml", "changelog", true, []string{"deb", "rpm"})
	}
	if sign {
		ext := ".gpg"
		if x.seen["keys/pgp.asc"] {
			ext = ".asc"
		}
		addRef("keys/pgp"+ext, "key", true, []string{"deb", "rpm"})
		addRef("keys/apk.rsa", "key", true, []string{"apk"})
	}
	for _, k := range refOrder {
		r := refMap[k]
		sort.Slice(r.Formats, func(i, j int) bool { return fmtIndex(r.Formats[i]) < fmtIndex(r.Formats[j]) })
		w.Refs = append(w.Refs, *r)
	}

	out, err := yaml.Marshal(cfg)
	if err != nil {
		panic(err)
	}
	w.Config = string(out)
	w.Tree = x.tree
	w.Features = x.feats
	w.EntryMTimes = entryMTimes
	return w, cfg
}

// RenderConfig marshals a configuration tree (keys sorted by the encoder).
func RenderConfig(cfg map[string]any) string {
	out, err := yaml.Marshal(cfg)
	if err != nil {
		panic(err)
	}
	return string(out)
}

func keyID(name string) string {
	file := name + ".keyid"
	if strings.HasSuffix(name, ".oldsub") {
		file = strings.TrimSuffix(name, ".oldsub") + ".oldsubkeyid"
	} else if strings.HasSuffix(name, ".sub") {
		file = strings.TrimSuffix(name, ".sub") + ".subkeyid"
	}
	b, err := os.ReadFile(filepath.Join(KeysDir, file))
	if err != nil {
		panic(err)
	}
	return strings.TrimSpace(string(b))
}

func fmtIndex(f string) int {
	for i, x := range allFormats {
		if x == f {
			return i
		}
	}
	return 99
}

func (x *gen) sizeSmall() int {
	return Pick(x.g, []int{0, 1, 7, 64, 511, 512, 513, 3000, 9000})
}
