package sim

import (
	"bytes"
	"crypto/sha256"
	"fmt"
	"os"
	"os/exec"
	"path/filepath"
	"runtime"
	"sort"
	"strings"
	"sync"
	"syscall"
	"time"

	"github.com/goreleaser/nfpm/v2"
)

var c07Offsets = []int64{
	1, 59, 3600, 86399, 86400, 31 * 86400, 365 * 86400, 366*86400 - 1, // seconds .. year boundary of 2000
	5 * 365 * 86400, 410227200, 631152000 + 43200, 788918400 - 1, 946684800 - 86400*40, // 2005 .. 2029
}

// GenC07 draws one C07 scenario: a world that satisfies the property's
// preconditions (mtime fixed, rpm build host fixed, no signing) and the
// simulated environments every format is rebuilt under.
func GenC07(verifSeed uint64, run int) *Scenario {
	seed := Mix(verifSeed, 7, uint64(run))
	g := NewRng(seed)
	nEnv := 6
	plan := &C07Plan{}
	var avoid []int64
	for i := 0; i < nEnv; i++ {
		e := Env07{GoMaxProcs: 4, SrcMode: "rel"}
		if i == 0 {
			e.ClockOffsetS = 12 * 3600
		} else {
			e.ClockOffsetS = Pick(g, c07Offsets) + g.Int63n(3600)
			e.TZOffsetMin = Pick(g, []int{-720, -480, -300, 0, 60, 330, 345, 540, 765, 840})
			e.GoMaxProcs = Pick(g, []int{1, 2, 4, 16})
			e.SrcMode = Pick(g, []string{"rel", "abs", "dotdot", "rel", "abs", "dotdot", "dotdot-linked-cwd"})
			e.History = g.Intn(4)
			e.Neighbour = g.Bool(0.3)
			e.Relocate = g.Bool(0.3)
			if e.Relocate && g.Bool(0.5) {
				e.RelocName = Pick(g, relocNames)
			}
			e.Umask = Pick(g, []int{0, 0, 0o022, 0o077, 0o007, 0o777})
			e.EnvNoise = g.Intn(4)
		}
		if i == nEnv-1 {
			e.Child = true
			e.Hostname = Pick(g, []string{"", "other-build-host", "ci-runner-7.example.org"})
		}
		plan.Envs = append(plan.Envs, e)
		avoid = append(avoid, FakeEpoch.Unix()+e.ClockOffsetS)
	}
	w, cfg := GenWorldCfg(g, GenOpts{FixMTime: true, NoSigning: true, AvoidClock: avoid, ManyFilesP: 0.06, LinkShapes: true})
	// negative control: the same configuration without a fixed mtime must
	// depend on the clock, otherwise the clock seam is not reaching the code
	probe := cloneTree(cfg).(map[string]any)
	delete(probe, "mtime")
	plan.ProbeConfig = RenderConfig(probe)
	return &Scenario{Property: "C07", VerifSeed: verifSeed, Run: run, RunSeed: seed, World: w, C07: plan}
}

func warmInfo(i int) *nfpm.Info {
	return nfpm.WithDefaults(&nfpm.Info{
		Name: fmt.Sprintf("warm%d", i), Arch: "amd64", Version: "1.0.0", Maintainer: "Warm <warm@verif.invalid>",
		MTime: time.Unix(1500000000, 0).UTC(),
	})
}

func warmBuild(i int) {
	f := Formats[i%len(Formats)]
	p, err := nfpm.Get(f)
	if err != nil {
		return
	}
	p.Package(warmInfo(i), NewSink(nil))
}

type c07build struct {
	bytes  []byte
	err    error
	leaked bool
}

// buildUnder runs one in-process build under a simulated environment.
func (rt *Runtime) buildUnder(w *World, cfg string, format string, e *Env07) c07build {
	var out c07build
	if e.Relocate {
		// same tree, other place: a second root materialised in reverse order
		alt := *rt
		name := e.RelocName
		if e.SrcMode == "abs" {
			name = ""
		}
		alt.Root = rt.relocatedRoot(name)
		if _, err := os.Stat(alt.Root); err != nil {
			if err := MaterializeOrder(alt.Root, w.Tree, true); err != nil {
				out.err = err
				return out
			}
			if err := OutsideTarget(alt.Root, c07OutsideKind); err != nil {
				out.err = err
				return out
			}
		}
		e2 := *e
		e2.Relocate = false
		return alt.buildUnder(w, cfg, format, &e2)
	}
	oldLocal := time.Local
	time.Local = zoneFor(e.TZOffsetMin)
	defer func() { time.Local = oldLocal }()
	if e.GoMaxProcs > 0 {
		old := runtime.GOMAXPROCS(e.GoMaxProcs)
		defer runtime.GOMAXPROCS(old)
	}
	if err := rt.SetSrcMode(e.SrcMode); err != nil {
		out.err = err
		return out
	}
	if e.Umask != 0 {
		old := syscall.Umask(e.Umask)
		defer syscall.Umask(old)
	}
	restoreEnv := setEnvNoise(e.EnvNoise)
	defer restoreEnv()
	for i := 0; i < e.History; i++ {
		warmBuild(i)
	}
	out.leaked = rt.InBubble(time.Duration(e.ClockOffsetS)*time.Second, func() {
		var wg sync.WaitGroup
		if e.Neighbour {
			wg.Add(1)
			go func() {
				defer wg.Done()
				warmBuild(7)
				warmBuild(8)
			}()
		}
		r := rt.Build(w, BuildOpts{Format: format, Config: cfg})
		wg.Wait()
		out.bytes = r.Bytes
		if r.ParseErr != nil {
			out.err = r.ParseErr
		} else {
			out.err = r.Err
		}
	})
	return out
}

// OutsideTarget puts something at <parent of root>/verif-outside/t, the path
// that links of the source tree may name although it is outside the tree:
// 0 = a file of mode 0600, 1 = a file of mode 0644, 2 = a directory, 3 =
// nothing. Every copy of the tree finds another thing there; none of it is a
// source.
var c07OutsideKind = 1 // what the relocated copy finds outside (set per scenario)

func OutsideTarget(root string, kind int) error {
	d := filepath.Join(filepath.Dir(root), "verif-outside")
	os.RemoveAll(d)
	if kind == 3 {
		return nil
	}
	if err := os.MkdirAll(d, 0o755); err != nil {
		return err
	}
	t := filepath.Join(d, "t")
	switch kind {
	case 2:
		return os.MkdirAll(filepath.Join(t, "inner"), 0o755)
	case 1:
		return os.WriteFile(t, []byte("outside, world readable\n"), 0o644)
	}
	return os.WriteFile(t, []byte("outside, private\n"), 0o600)
}

// relocatedRoot: where the second copy of the source tree lives - on another
// file system than the first (the disk under /tmp instead of the tmpfs under
// /dev/shm) when there is one, so that block counts, directory sizes, device
// numbers and readdir order all differ between the two copies.
func (rt *Runtime) relocatedRoot(name string) string {
	base := filepath.Join(os.TempDir(), "verif-reloc")
	if os.MkdirAll(base, 0o755) != nil {
		return rt.Root + "-relocated"
	}
	tag := strings.NewReplacer("/", "_").Replace(strings.TrimPrefix(rt.Root, "/dev/shm/"))
	if name == "" {
		name = "plain"
	}
	return filepath.Join(base, tag, name)
}

// relocNames: legal directory names for the second copy of the tree.
var relocNames = []string{"a?b", "[x]", "{y,z}", "s*t", "with space", `back\slash`, "caf\u00e9"}

var zoneCache = map[int]*time.Location{}

// zoneFor returns one *time.Location per offset for the whole process: two
// builds under the same simulated zone must see the identical pointer, as
// they would with a real, never-changing time.Local (time.Time values compare
// their location pointer).
func zoneFor(offsetMin int) *time.Location {
	if z, ok := zoneCache[offsetMin]; ok {
		return z
	}
	z := time.FixedZone(fmt.Sprintf("verif%+d", offsetMin), offsetMin*60)
	zoneCache[offsetMin] = z
	return z
}

var unshareState int // 0 unknown, 1 works, 2 does not

// unshareWorks: a private UTS namespace needs privileges the sandbox may not
// grant; probe once, fall back to the host's own name.
func unshareWorks() bool {
	if unshareState == 0 {
		unshareState = 2
		if p, err := exec.LookPath("unshare"); err == nil {
			if exec.Command(p, "--uts", "/bin/sh", "-c", "hostname verif-probe").Run() == nil {
				unshareState = 1
			}
		}
	}
	return unshareState == 1
}

// envNoise: ambient variables that have nothing to do with packaging.
var envNoise = [][][2]string{
	{},
	{{"HOME", "/home/alice"}, {"USER", "alice"}, {"LOGNAME", "alice"}, {"LANG", "de_DE.UTF-8"}, {"LC_ALL", "de_DE.UTF-8"}, {"TMPDIR", "/dev/shm"},
		// variables other packaging tools read for a default identity or build label
		{"PACKAGER", "Alice Example <alice@example.invalid>"}, {"DEBEMAIL", "alice@example.invalid"}, {"DEBFULLNAME", "Alice Example"}, {"EMAIL", "alice@example.invalid"},
		{"NAME", "Alice Example"}, {"MAINTAINER", "Alice Example <alice@example.invalid>"}, {"BUILD_NUMBER", "4711"}, {"CI", "true"}},
	{{"HOME", "/root"}, {"USER", "root"}, {"LANG", "C"}, {"TMPDIR", "/tmp"}, {"HOSTNAME", "env-host"},
		{"PACKAGER", "Bob <bob@example.invalid>"}, {"DEBEMAIL", "bob@example.invalid"}, {"GITHUB_SHA", "2c499787328348f09ae1e8f03757c6483b9a938a"}, {"GIT_COMMIT", "2c49978"},
		{"VERSION", "9.9.9"}, {"RELEASE", "99"}, {"ARCH", "sparc"}, {"RPM_PACKAGER", "Bob"}, {"VENDOR", "Env Vendor"}},
	{{"HOME", "/nonexistent"}, {"USER", "builder"}, {"LANG", "tr_TR.UTF-8"}, {"GOFLAGS", ""}, {"XDG_CONFIG_HOME", "/tmp/xdg"},
		{"PACKAGER", " "}, {"BUILD_ID", "b-1"}, {"BUILD_DATE", "2001-02-03"}, {"GOARCH", "mips"}, {"GOOS", "plan9"}, {"NFPM_VERSION", "0.0.1"}, {"DEB_BUILD_OPTIONS", "nocheck"}},
}

func setEnvNoise(n int) func() {
	set := envNoise[n%len(envNoise)]
	type old struct {
		k, v string
		had  bool
	}
	var olds []old
	for _, kv := range set {
		v, had := os.LookupEnv(kv[0])
		olds = append(olds, old{kv[0], v, had})
		os.Setenv(kv[0], kv[1])
	}
	return func() {
		for _, o := range olds {
			if o.had {
				os.Setenv(o.k, o.v)
			} else {
				os.Unsetenv(o.k)
			}
		}
	}
}

// buildChild runs the built CLI in a child process with its own TZ,
// GOMAXPROCS, cwd and environment (real clock there).
func (rt *Runtime) buildChild(w *World, format string, e *Env07, tag string) c07build {
	var out c07build
	cli := rt.Extra["cli"]
	if cli == "" {
		out.err = fmt.Errorf("no CLI binary")
		return out
	}
	if err := rt.SetSrcMode(e.SrcMode); err != nil {
		out.err = err
		return out
	}
	cwd, _ := os.Getwd()
	dir := filepath.Dir(rt.Root)
	cfgPath := filepath.Join(dir, "child-"+tag+".yaml")
	target := filepath.Join(dir, "child-"+tag+".pkg")
	os.Remove(target)
	if err := os.WriteFile(cfgPath, []byte(rt.ConfigText(w.Config)), 0o644); err != nil {
		out.err = err
		return out
	}
	defer os.Remove(cfgPath)
	defer os.Remove(target)
	// the child gets its own umask and, when possible, its own host name
	// (private UTS namespace)
	script := fmt.Sprintf("umask %04o; exec \"$0\" \"$@\"", e.Umask)
	args := []string{"-c", script, cli, "package", "-f", cfgPath, "-p", format, "-t", target}
	cmd := exec.Command("/bin/sh", args...)
	if e.Hostname != "" {
		if unshareWorks() {
			script = fmt.Sprintf("hostname %s 2>/dev/null; umask %04o; exec \"$0\" \"$@\"", e.Hostname, e.Umask)
			cmd = exec.Command("unshare", append([]string{"--uts", "/bin/sh", "-c", script}, args[2:]...)...)
		}
	}
	cmd.Dir = cwd
	env := []string{"PATH=/usr/bin:/bin:/usr/sbin:/sbin", "HOME=/nonexistent", fmt.Sprintf("GOMAXPROCS=%d", e.GoMaxProcs)}
	for _, kv := range envNoise[e.EnvNoise%len(envNoise)] {
		env = append(env, kv[0]+"="+kv[1])
	}
	// Go resolves TZ as a zoneinfo name (not a POSIX rule string)
	zones := []string{"UTC", "Asia/Kolkata", "America/New_York", "Pacific/Kiritimati", "Europe/Berlin", "Australia/Lord_Howe"}
	env = append(env, "TZ="+zones[abs(e.TZOffsetMin/15)%len(zones)])
	keys := make([]string, 0, len(w.Env))
	for k := range w.Env {
		keys = append(keys, k)
	}
	sort.Strings(keys)
	for _, k := range keys {
		env = append(env, k+"="+w.Env[k])
	}
	cmd.Env = env
	o, err := cmd.CombinedOutput()
	if err != nil {
		out.err = fmt.Errorf("child nfpm failed: %v: %s", err, scrub(rt, string(o)))
		return out
	}
	b, err := os.ReadFile(target)
	if err != nil {
		out.err = err
		return out
	}
	out.bytes = b
	return out
}

func tzName(min int) string { return fmt.Sprintf("%+03d:%02d", min/60, abs(min)%60) }

func abs(x int) int {
	if x < 0 {
		return -x
	}
	return x
}

func clockBucket(s int64) string {
	switch {
	case s < 86400:
		return "<1d"
	case s < 366*86400:
		return "<1y"
	case s < 10*366*86400:
		return "<10y"
	}
	return ">=10y"
}

// RunC07 executes a C07 scenario.
func RunC07(rt *Runtime, sc *Scenario) RunResult {
	res := RunResult{Run: sc.Run, RunSeed: sc.RunSeed, Counters: map[string]int64{}}
	elog := NewEventLog()
	w := &sc.World
	plan := sc.C07
	if err := Materialize(rt.Root, w.Tree); err != nil {
		res.Trouble = "materialize: " + err.Error()
		return res
	}
	c07OutsideKind = 1 + sc.Run%3
	if err := OutsideTarget(rt.Root, 0); err != nil {
		res.Trouble = "outside target: " + err.Error()
		return res
	}
	rt.SetEnv(w.Env)
	os.RemoveAll(filepath.Dir(rt.relocatedRoot("")))
	defer os.RemoveAll(filepath.Dir(rt.relocatedRoot("")))
	seen := map[string]bool{}
	violate := func(v Violation) {
		v.Property = "C07"
		if seen[v.Key()] {
			return
		}
		seen[v.Key()] = true
		res.Violations = append(res.Violations, v)
	}
	distinct := map[string]bool{}
	formats := Formats
	if len(plan.Formats) > 0 {
		formats = plan.Formats
	}
	// allowed timestamps (oracle B)
	allowed := map[int64]bool{0: true}
	if w.MTime != 0 {
		allowed[w.MTime] = true
	}
	for _, t := range w.EntryMTimes {
		allowed[t] = true
	}
	for _, e := range w.Tree {
		if e.MTime != 0 {
			allowed[e.MTime] = true
		}
	}
	var fakeNows []int64
	for _, e := range plan.Envs {
		fakeNows = append(fakeNows, FakeEpoch.Unix()+e.ClockOffsetS)
	}
	nearNow := func(t int64) string {
		for _, n := range fakeNows {
			if t > n-2*86400 && t < n+2*86400 {
				return "the simulated build-time clock"
			}
		}
		if t >= harnessEraLo && t < harnessEraHi {
			return "the real build-time clock"
		}
		return ""
	}

	for _, f := range formats {
		var base c07build
		for i := range plan.Envs {
			e := &plan.Envs[i]
			var b c07build
			if e.Child {
				if rt.Extra["cli"] == "" {
					res.Counters["skipped.child_no_cli"]++
					continue
				}
				b = rt.buildChild(w, f, e, fmt.Sprintf("%d-%s", sc.Run, f))
				res.Counters["builds_child"]++
			} else {
				b = rt.buildUnder(w, "", f, e)
				res.Counters["sim_time_s"] += e.ClockOffsetS
			}
			res.Counters["builds"]++
			if b.leaked {
				res.Counters["bubble_goroutine_leak"]++
			}
			sum := sha256.Sum256(b.bytes)
			elog.Add("build %s env=%d failed=%v bytes=%d sha=%x", f, i, b.err != nil, len(b.bytes), sum[:8])
			if i == 0 {
				base = b
				if b.err != nil {
					res.Counters["reference_failed"]++
					res.Notes = append(res.Notes, fmt.Sprintf("baseline build of %s failed: %v", f, scrub(rt, b.err.Error())))
					break
				}
				// oracle B on the baseline bytes
				stamps, err := ExtractStamps(f, b.bytes)
				if err != nil {
					res.Trouble = fmt.Sprintf("cannot read back %s package: %v", f, err)
					return res
				}
				res.Counters["timestamps_checked"] += int64(len(stamps))
				if len(stamps) > 0 {
					res.Counters["probe.stamps."+f]++
				}
				for _, s := range stamps {
					if allowed[s.T] {
						continue
					}
					why := nearNow(s.T)
					// The MTIME of a gzip container header is not one of the
					// timestamps the property enumerates (archive member
					// headers, rpm build/file times, builddate, .MTREE times);
					// for it only "never the build-time clock" is demanded.
					// (pgzip writes a zero time.Time as the constant
					// 2042-07-14 there; nfpm's source notes this quirk.)
					if strings.Contains(s.Where, "gzip header") && why == "" {
						res.Counters["probe.gzip_header_mtime_not_clock"]++
						continue
					}
					group := "timestamp-not-from-config-or-sources"
					if why != "" {
						group = "timestamp-from-clock"
					} else {
						why = "neither the configured mtime, a configured per-entry mtime nor the on-disk mtime of a source"
					}
					ee := *e
					violate(Violation{Oracle: "B", Format: f, Group: group, Env: &ee,
						Detail: fmt.Sprintf("%s: timestamp %d (%s) stored at %s is %s", f, s.T, time.Unix(s.T, 0).UTC().Format(time.RFC3339), s.Where, why)})
					break
				}
				continue
			}
			if b.err != nil {
				ee := *e
				violate(Violation{Oracle: "A", Format: f, Group: "fails-in-other-environment", Env: &ee,
					Detail: fmt.Sprintf("%s: build fails under environment %+v although it succeeds under the baseline: %v", f, *e, scrub(rt, b.err.Error()))})
				continue
			}
			distinct[fmt.Sprintf("%s|%s|tz%s|gmp%d|%s|h%d|n%v|child%v|reloc%v|clk%s", f, compOf(w, f), tzName(e.TZOffsetMin), e.GoMaxProcs, e.SrcMode, e.History, e.Neighbour, e.Child, e.Relocate, clockBucket(e.ClockOffsetS))] = true
			if !bytes.Equal(b.bytes, base.bytes) {
				// which dimension of the environment do the bytes depend on?
				culprit := "child-process"
				if !e.Child {
					culprit = rt.c07Culprit(w, f, &plan.Envs[0], e, base.bytes, &res)
				}
				ee := *e
				// the culprit is a diagnosis, not part of the violation's
				// identity: with a nondeterministic output it differs from
				// run to run
				violate(Violation{Oracle: "A", Format: f, Group: "bytes-differ-between-rebuilds", Class: "depends-on:" + culprit, Env: &ee,
					Detail: fmt.Sprintf("%s: bytes differ between baseline environment %+v and %+v (%s); depends on: %s", f, plan.Envs[0], *e, firstDiff(b.bytes, base.bytes), culprit)})
			}
		}
	}

	// stale-source phase: the content of one consumed source changes (same
	// size, same mtime) after this process has already packaged it; the next
	// in-process build must ship the new content - equal to what a fresh
	// process builds and different from the old package. (History dimension:
	// anything cached across packagings and validated by size/mtime only.)
	if len(plan.Formats) == 0 && res.Trouble == "" {
		rt.c07StaleSource(sc, &res, violate)
	}

	// location phase: a build with ../-prefixed sources from the primary tree,
	// then the same build from the relocated copy while the primary tree is
	// hidden (renamed away). Anything remembered from the first location (a
	// cached working directory or absolute path) then fails or differs.
	if len(plan.Formats) == 0 && res.Trouble == "" {
		rt.c07Location(sc, &res, violate)
	}

	// reach probe: without a fixed mtime two simulated clocks must give
	// different bytes (otherwise the clock seam does not reach the code)
	if plan.ProbeConfig != "" && len(plan.Formats) == 0 {
		envNoSDE := map[string]string{}
		for k, v := range w.Env {
			if k != "SOURCE_DATE_EPOCH" {
				envNoSDE[k] = v
			}
		}
		rt.SetEnv(envNoSDE)
		e1 := Env07{ClockOffsetS: 1000, GoMaxProcs: 4, SrcMode: "rel"}
		e2 := Env07{ClockOffsetS: 900000000, GoMaxProcs: 4, SrcMode: "rel"}
		b1 := rt.buildUnder(w, plan.ProbeConfig, "deb", &e1)
		b2 := rt.buildUnder(w, plan.ProbeConfig, "deb", &e2)
		rt.SetEnv(w.Env)
		res.Counters["builds"] += 2
		if b1.err == nil && b2.err == nil {
			if bytes.Equal(b1.bytes, b2.bytes) {
				res.Trouble = "negative control failed: with mtime unset two simulated clocks gave identical deb bytes (the clock seam does not reach the code)"
				return res
			}
			res.Counters["probe.clock_reaches_output"]++
		}
	}
	for k := range distinct {
		res.Distinct = append(res.Distinct, k)
	}
	sort.Strings(res.Distinct)
	res.LogHash = elog.Sum()
	res.Sample = map[string]any{"run": sc.Run, "features": w.Features, "mtime_fixed_by": w.MTimeFixed, "envs": plan.Envs}
	return res
}

func (rt *Runtime) c07Location(sc *Scenario, res *RunResult, violate func(Violation)) {
	w := &sc.World
	here := Env07{ClockOffsetS: 12 * 3600, GoMaxProcs: 4, SrcMode: "dotdot"}
	there := Env07{ClockOffsetS: 12 * 3600, GoMaxProcs: 4, SrcMode: "dotdot", Relocate: true}
	if k := sc.Run % (2 * len(relocNames)); k < len(relocNames) {
		there.RelocName = relocNames[k]
	}
	hidden := rt.Root + ".hidden"
	for _, f := range []string{Formats[sc.Run%len(Formats)], Formats[(sc.Run+2)%len(Formats)]} {
		b1 := rt.buildUnder(w, "", f, &here)
		res.Counters["builds"]++
		if b1.err != nil {
			continue
		}
		// make sure the relocated copy exists before the primary disappears
		pre := rt.buildUnder(w, "", f, &there)
		res.Counters["builds"]++
		if pre.err != nil {
			continue
		}
		if err := os.Rename(rt.Root, hidden); err != nil {
			continue
		}
		b2 := rt.buildUnder(w, "", f, &there)
		os.Chdir("/")
		if err := os.Rename(hidden, rt.Root); err != nil {
			res.Trouble = "cannot restore the primary tree: " + err.Error()
			return
		}
		res.Counters["builds"]++
		res.Counters["probe.location_checks"]++
		ee := there
		if b2.err != nil {
			violate(Violation{Oracle: "A", Format: f, Group: "depends-on-first-location", Env: &ee,
				Detail: fmt.Sprintf("%s: after a build from one source tree, the same build from a copy at another place fails once the first tree is gone: %s", f, scrub(rt, b2.err.Error()))})
		} else if !bytes.Equal(b2.bytes, b1.bytes) {
			violate(Violation{Oracle: "A", Format: f, Group: "depends-on-first-location", Env: &ee,
				Detail: fmt.Sprintf("%s: the build from a copy of the tree at another place differs from the build at the first place (%s)", f, firstDiff(b2.bytes, b1.bytes))})
		}
	}
}

// mutateSameSize changes the meaning of a source without changing its length.
func mutateSameSize(kind string, b []byte) bool {
	swapCase := func(i int) bool {
		if i < 0 || i >= len(b) {
			return false
		}
		switch c := b[i]; {
		case c >= 'a' && c <= 'z':
			b[i] = c - 32
		case c >= 'A' && c <= 'Z':
			b[i] = c + 32
		default:
			return false
		}
		return true
	}
	switch kind {
	case "changelog":
		i := bytes.Index(b, []byte("note: "))
		return i >= 0 && swapCase(i+6)
	case "script":
		i := bytes.Index(b, []byte("echo "))
		if i >= 0 && swapCase(i+5) {
			return true
		}
		i = bytes.Index(b, []byte("exit 0"))
		if i >= 0 {
			b[i+5] = '1'
			return true
		}
		return false
	default:
		if len(b) == 0 {
			return false
		}
		b[len(b)-1] ^= 0x55
		return true
	}
}

func (rt *Runtime) c07StaleSource(sc *Scenario, res *RunResult, violate func(Violation)) {
	w := &sc.World
	base := Env07{ClockOffsetS: 12 * 3600, GoMaxProcs: 4, SrcMode: "rel"}
	done := map[string]bool{}
	for _, rf := range w.Refs {
		if !rf.Single || done[rf.Kind] || (rf.Kind != "changelog" && rf.Kind != "script" && rf.Kind != "content") {
			continue
		}
		if !strings.Contains(w.Config, rf.Path) {
			continue // (a shrunk replay scenario may no longer reference it)
		}
		p := filepath.Join(rt.Root, rf.Path)
		st, err := os.Lstat(p)
		if err != nil || !st.Mode().IsRegular() || st.Size() == 0 {
			continue
		}
		orig, err := os.ReadFile(p)
		if err != nil {
			continue
		}
		mut := append([]byte{}, orig...)
		if !mutateSameSize(rf.Kind, mut) {
			continue
		}
		done[rf.Kind] = true
		// packages of the old content (this process has now seen the file)
		old := map[string][]byte{}
		for _, f := range rf.Formats {
			b := rt.buildUnder(w, "", f, &base)
			res.Counters["builds"]++
			if b.err == nil {
				old[f] = b.bytes
			}
		}
		mt := st.ModTime()
		if os.WriteFile(p, mut, st.Mode().Perm()) != nil {
			continue
		}
		os.Chmod(p, st.Mode())
		os.Chtimes(p, mt, mt)
		for _, f := range rf.Formats {
			if old[f] == nil {
				continue
			}
			b := rt.buildUnder(w, "", f, &base)
			res.Counters["builds"]++
			res.Counters["probe.stale_source_checks."+rf.Kind]++
			if b.err != nil {
				continue
			}
			ee := base
			if bytes.Equal(b.bytes, old[f]) {
				violate(Violation{Oracle: "A", Format: f, Group: "stale-after-source-change", Class: rf.Kind, Env: &ee,
					Detail: fmt.Sprintf("%s: the content of %s (%s) changed (same size and mtime) after an earlier packaging in this process, but the package built afterwards is byte-identical to the old one", f, rf.Path, rf.Kind)})
				continue
			}
			if rt.Extra["cli"] != "" {
				ce := Env07{GoMaxProcs: 4, SrcMode: "rel", Child: true}
				c := rt.buildChild(w, f, &ce, fmt.Sprintf("stale-%d-%s", sc.Run, f))
				res.Counters["builds"]++
				res.Counters["builds_child"]++
				if c.err == nil && !bytes.Equal(c.bytes, b.bytes) {
					violate(Violation{Oracle: "A", Format: f, Group: "stale-after-source-change", Class: rf.Kind, Env: &ee,
						Detail: fmt.Sprintf("%s: after %s (%s) changed in place, the in-process rebuild differs from a fresh process's build of the same tree (%s)", f, rf.Path, rf.Kind, firstDiff(b.bytes, c.bytes))})
				}
			}
		}
		os.WriteFile(p, orig, st.Mode().Perm())
		os.Chmod(p, st.Mode())
		os.Chtimes(p, mt, mt)
	}
}

// c07Culprit rebuilds under hybrids of the baseline and the differing
// environment, one dimension at a time.
func (rt *Runtime) c07Culprit(w *World, f string, base, e *Env07, baseBytes []byte, res *RunResult) string {
	var dims []string
	try := func(name string, h Env07) {
		b := rt.buildUnder(w, "", f, &h)
		res.Counters["builds"]++
		if b.err != nil || !bytes.Equal(b.bytes, baseBytes) {
			dims = append(dims, name)
		}
	}
	h := *base
	h.ClockOffsetS = e.ClockOffsetS
	try("clock", h)
	h = *base
	h.TZOffsetMin = e.TZOffsetMin
	try("timezone", h)
	h = *base
	h.GoMaxProcs = e.GoMaxProcs
	try("gomaxprocs", h)
	h = *base
	h.SrcMode = e.SrcMode
	try("source-spelling", h)
	h = *base
	h.History = e.History
	try("process-history", h)
	h = *base
	h.Neighbour = e.Neighbour
	try("parallel-neighbour", h)
	h = *base
	h.Relocate = e.Relocate
	h.RelocName = e.RelocName
	try("source-location", h)
	h = *base
	h.Umask = e.Umask
	try("process-umask", h)
	h = *base
	h.EnvNoise = e.EnvNoise
	try("ambient-environment", h)
	// plain repetition
	b := rt.buildUnder(w, "", f, base)
	res.Counters["builds"]++
	if b.err == nil && !bytes.Equal(b.bytes, baseBytes) {
		dims = append(dims, "repetition")
	}
	if len(dims) == 0 {
		return "combination"
	}
	for _, d := range dims {
		if d == "repetition" {
			return "nothing-but-repetition (nondeterministic output)"
		}
	}
	return strings.Join(dims, "+")
}
