package sim

import (
	"bytes"
	"fmt"
	"os"
	"os/exec"
	"path/filepath"
	"sort"
	"strings"
	"syscall"
)

// CLI tier of C06 (seam S8): the built nfpm binary is run as a child and the
// target disk is made to fail — by pointing the target at /dev/full, and by
// strace injecting ENOSPC into the K-th write(2) on the target path or EIO
// into a read(2) of a source file. Oracle O3: exit status != 0, the output
// names the cause, and nothing is left at the target path.

type cliResult struct {
	exit   int
	output string
	err    error
}

func (rt *Runtime) runCLI(w *World, cfgText, format, target string, strace []string) cliResult {
	return rt.runCLIIn(w, cfgText, format, target, strace, "")
}

// runCLIIn: target "" means no -t flag (package goes to the working directory).
func (rt *Runtime) runCLIIn(w *World, cfgText, format, target string, strace []string, cwdOverride string) cliResult {
	cli := rt.Extra["cli"]
	dir := filepath.Dir(rt.Root)
	cfgPath := filepath.Join(dir, "cli.yaml")
	if err := os.WriteFile(cfgPath, []byte(rt.ConfigText(cfgText)), 0o644); err != nil {
		return cliResult{err: err}
	}
	defer os.Remove(cfgPath)
	args := []string{"package", "-f", cfgPath, "-p", format}
	if target != "" {
		args = append(args, "-t", target)
	}
	var cmd *exec.Cmd
	if len(strace) > 0 {
		all := append(append([]string{}, strace...), cli)
		all = append(all, args...)
		cmd = exec.Command("strace", all...)
	} else {
		cmd = exec.Command(cli, args...)
	}
	cwd, _ := os.Getwd()
	if cwdOverride != "" {
		cwd = cwdOverride
	}
	cmd.Dir = cwd
	env := []string{"PATH=/usr/bin:/bin", "HOME=/nonexistent", "GOMAXPROCS=4", "TZ=UTC"}
	keys := make([]string, 0, len(w.Env))
	for k := range w.Env {
		keys = append(keys, k)
	}
	sort.Strings(keys)
	for _, k := range keys {
		env = append(env, k+"="+w.Env[k])
	}
	cmd.Env = env
	var out bytes.Buffer
	cmd.Stdout = &out
	cmd.Stderr = &out
	err := cmd.Run()
	res := cliResult{output: out.String()}
	if err != nil {
		if ee, ok := err.(*exec.ExitError); ok {
			res.exit = ee.ExitCode()
		} else {
			res.err = err
		}
	}
	return res
}

func targetGone(target string) bool {
	_, err := os.Lstat(target)
	return os.IsNotExist(err)
}

// runCLITier runs the CLI cases of one scenario.
func (s *c06state) runCLITier() {
	rt := s.rt
	w := &s.sc.World
	if rt.Extra["cli"] == "" {
		s.count("skipped.cli_no_binary", 1)
		return
	}
	_, straceErr := exec.LookPath("strace")
	dir := filepath.Dir(rt.Root)
	target := filepath.Join(dir, "target.pkg")
	draws := s.sc.C06.PartialN
	// leftover reports whether anything is left where the package was to go
	leftover := func() bool { return !targetGone(target) }
	// stale: in half of the cases where packaging itself fails (a source that
	// cannot be read) a package from an earlier, successful build is already at
	// the target path. "Leaves no file at the target path" is taken literally
	// there: the command must not leave the old package standing as if it were
	// the result of this build. (Not done for invalid settings: a command that
	// could not load its configuration never came to packaging.)
	stale := func(k int) string {
		if (k+s.sc.Run)%2 != 0 {
			return ""
		}
		if os.WriteFile(target, []byte("!<arch>\nstale package from an earlier build\n"), 0o644) != nil {
			return ""
		}
		s.count("probe.cli_stale_target", 1)
		return " (a package from an earlier build was at the target path before the command ran)"
	}
	check := func(format, class, cause string, r cliResult, wantCause []string) {
		s.count("cli_runs", 1)
		s.count("evaluations_extra", 1)
		if r.err != nil {
			s.res.Trouble = "cli: " + r.err.Error()
			return
		}
		if !strings.HasPrefix(class, "strace") {
			s.elog.Add("cli %s %s exit=%d target_gone=%v", format, class, r.exit, targetGone(target))
		}
		s.count("fault_fired.cli."+class, 1)
		s.dist[fmt.Sprintf("cli|%s|%s|%s", format, compOf(w, format), class)] = true
		c := Case{Format: format, Class: "cli", Invalid: class}
		if r.exit == 0 {
			s.violate(Violation{Oracle: "O3", Format: format, Group: "cli." + class, Class: "cli." + class, Case: &c,
				Detail: fmt.Sprintf("nfpm package -p %s: %s, but the command exited 0; output: %s", format, cause, oneLineS(scrub(rt, r.output)))})
		} else {
			named := len(wantCause) == 0
			for _, wc := range wantCause {
				if strings.Contains(strings.ToLower(r.output), strings.ToLower(wc)) {
					named = true
				}
			}
			if !named {
				s.violate(Violation{Oracle: "O3", Format: format, Group: "cli." + class + ".cause", Class: "cli." + class, Case: &c,
					Detail: fmt.Sprintf("nfpm package -p %s: %s; exit %d but the output does not name the cause (want one of %q): %s", format, cause, r.exit, wantCause, oneLineS(scrub(rt, r.output)))})
			}
		}
		if leftover() {
			s.violate(Violation{Oracle: "O3", Format: format, Group: "cli." + class + ".leftover", Class: "cli." + class, Case: &c,
				Detail: fmt.Sprintf("nfpm package -p %s: %s; exit %d and a file is left at the target path", format, cause, r.exit)})
		}
		os.Remove(target)
	}
	for fi, format := range Formats {
		// which writes does this format issue? (in-process trace of the same scenario)
		ref, ok, err := rt.Reference(w, format, "", "", 4)
		s.count("builds", int64(ref.Builds))
		if err != nil || !ok {
			continue
		}
		s.count("probe.cli_formats", int64(b2i(len(ref.Trace) > 0)))
		os.Remove(target)
		// control: fault-free run
		r := rt.runCLI(w, w.Config, format, target, nil)
		s.count("cli_runs", 1)
		if r.err != nil {
			s.res.Trouble = "cli: " + r.err.Error()
			return
		}
		if r.exit != 0 || targetGone(target) {
			s.res.Notes = append(s.res.Notes, fmt.Sprintf("cli control run for %s failed: exit %d: %s", format, r.exit, oneLineS(scrub(rt, r.output))))
			s.count("reference_failed", 1)
			os.Remove(target)
			continue
		}
		// (the control run only has to succeed and leave a non-empty file;
		// byte equality across processes and clocks is C07's business)
		if st, err := os.Stat(target); err == nil && st.Size() > 0 {
			s.count("probe.cli_control_ok", 1)
		}
		os.Remove(target)

		// target is a symlink to /dev/full: every write fails with ENOSPC
		if err := os.Symlink("/dev/full", target); err == nil {
			r = rt.runCLI(w, w.Config, format, target, nil)
			check(format, "devfull", "every write to the target fails with ENOSPC (/dev/full)", r, []string{"no space left"})
		}
		os.Remove(target)

		// a full disk at a drawn byte position: the target lives on a tmpfs
		// whose size is smaller than the package (real ENOSPC, real short
		// write, deterministic position)
		pagesNeeded := (len(ref.F) + 4095) / 4096
		if pagesNeeded >= 2 && len(draws) > 0 {
			pages := 1 + int(draws[(fi*7+3)%len(draws)]%uint64(pagesNeeded-1))
			// the CLI's own build may be a few bytes shorter than the
			// in-process one (salted key-file signatures): keep a margin so
			// that the package can never fit
			for pages >= 1 && len(ref.F)-pages*4096 < 512 {
				pages--
			}
			mnt := filepath.Join(dir, "fulldisk")
			os.MkdirAll(mnt, 0o755)
			if pages < 1 {
				s.count("skipped.fulldisk_too_small", 1)
			} else if err := syscall.Mount("tmpfs", mnt, "tmpfs", 0, fmt.Sprintf("size=%d", pages*4096)); err != nil {
				s.count("skipped.tmpfs_mount_refused", 1)
			} else {
				oldTarget := target
				class := "fulldisk"
				if draws[(fi*7+5)%len(draws)]&1 == 0 {
					// the target is an existing directory: the package goes
					// to <dir>/<conventional file name>
					target = mnt
					class = "fulldisk_dirtarget"
					leftover = func() bool {
						es, _ := os.ReadDir(mnt)
						return len(es) > 0
					}
				} else {
					target = filepath.Join(mnt, "target.pkg")
				}
				r = rt.runCLI(w, w.Config, format, target, nil)
				check(format, class, fmt.Sprintf("the target file system is full after %d of %d bytes", pages*4096, len(ref.F)), r, []string{"no space left"})
				target = oldTarget
				leftover = func() bool { return !targetGone(target) }
				syscall.Unmount(mnt, 0)
				if pages > 1 {
					s.count("probe.fulldisk_mid_stream", 1)
				}
			}
			os.Remove(mnt)
		}

		if straceErr == nil {
			// EIO from a read(2) of a source file the format consumes
			for _, rf := range w.Refs {
				if !contains(rf.Formats, format) || !rf.Single || rf.Kind == "key" {
					continue
				}
				src := filepath.Join(rt.Root, rf.Path)
				if st, err := os.Stat(src); err != nil || st.Size() == 0 || !st.Mode().IsRegular() {
					continue
				}
				if lst, err := os.Lstat(src); err != nil || lst.Mode()&os.ModeSymlink != 0 {
					continue
				}
				slog := filepath.Join(dir, "strace.log")
				os.Remove(slog)
				was := stale(fi)
				r = rt.runCLI(w, w.Config, format, target, []string{"-f", "-o", slog, "-e", "trace=read,pread64", "-e", "inject=read,pread64:error=EIO:when=1+", "-P", src})
				lb, _ := os.ReadFile(slog)
				os.Remove(slog)
				if !bytes.Contains(lb, []byte("(INJECTED)")) {
					// the fault did not fire (strace counts per thread): no oracle
					s.count("fault_not_reached", 1)
					os.Remove(target)
					break
				}
				check(format, "strace_read_eio."+rf.Kind, fmt.Sprintf("reading %s fails with EIO%s", rf.Path, was), r, []string{"input/output error"})
				break
			}
			// a source file that is there when it is looked at (stat) and gone
			// when it is opened: ENOENT from every openat(2) of that path,
			// nothing else is touched. The changelog first (its reader treats
			// "not found" as "empty"), then one other reference.
			done := 0
			for pass := 0; pass < 2 && done < 2; pass++ {
				for _, rf := range w.Refs {
					if (pass == 0) != (rf.Kind == "changelog") {
						continue
					}
					if !contains(rf.Formats, format) || !rf.Single || rf.Kind == "key" || done >= 2 {
						continue
					}
					src := filepath.Join(rt.Root, rf.Path)
					if lst, err := os.Lstat(src); err != nil || !lst.Mode().IsRegular() {
						continue
					}
					slog := filepath.Join(dir, "strace.log")
					os.Remove(slog)
					was := stale(fi + done + 1)
					r = rt.runCLI(w, w.Config, format, target, []string{"-f", "-o", slog, "-e", "trace=openat,open", "-e", "inject=openat,open:error=ENOENT:when=1+",
						// (strace compares the path argument as the process spells it)
						"-P", src, "-P", rf.Path, "-P", "./" + rf.Path, "-P", "../" + rf.Path})
					lb, _ := os.ReadFile(slog)
					os.Remove(slog)
					if !bytes.Contains(lb, []byte("(INJECTED)")) {
						s.count("fault_not_reached", 1)
						os.Remove(target)
						continue
					}
					done++
					check(format, "strace_open_enoent."+rf.Kind, fmt.Sprintf("%s is there when it is looked at but gone when it is opened (ENOENT from openat)%s", rf.Path, was), r, []string{"no such file"})
				}
			}
		} else {
			s.count("skipped.strace_missing", 1)
		}

		// a referenced file is missing
		for _, rf := range w.Refs {
			if !contains(rf.Formats, format) {
				continue
			}
			restore, err := ApplyFSFault(rt.Root, w.Tree, &FSFault{Path: rf.Path, Kind: "remove"})
			if err == nil {
				// rotate over the three ways of naming the target: a file, an
				// existing directory, nothing (current directory)
				tdir := filepath.Join(dir, "tdir")
				os.RemoveAll(tdir)
				os.MkdirAll(tdir, 0o755)
				mode := (fi + s.sc.Run) % 3
				if mode == 2 && s.sc.C06.SrcMode != "abs" {
					mode = 1 // relative sources need the scenario's cwd
				}
				dirLeft := func() bool {
					es, _ := os.ReadDir(tdir)
					return len(es) > 0
				}
				switch mode {
				case 0:
					was := stale(fi / 3)
					r = rt.runCLI(w, w.Config, format, target, nil)
					check(format, "missing."+rf.Kind, "referenced "+rf.Kind+" "+rf.Path+" is missing"+was, r, []string{filepath.Base(rf.Path), "no such file", "no matching files"})
				case 1:
					leftover = dirLeft
					r = rt.runCLI(w, w.Config, format, tdir, nil)
					check(format, "missing_dirtarget."+rf.Kind, "referenced "+rf.Kind+" "+rf.Path+" is missing (target is a directory)", r, []string{filepath.Base(rf.Path), "no such file", "no matching files"})
				case 2:
					leftover = dirLeft
					r = rt.runCLIIn(w, w.Config, format, "", nil, tdir)
					check(format, "missing_notarget."+rf.Kind, "referenced "+rf.Kind+" "+rf.Path+" is missing (no target given)", r, []string{filepath.Base(rf.Path), "no such file", "no matching files"})
				}
				leftover = func() bool { return !targetGone(target) }
				os.RemoveAll(tdir)
			}
			if rerr := restore(); rerr != nil {
				s.res.Trouble = "restore: " + rerr.Error()
				return
			}
			break
		}
		// an invalid setting
		for _, ic := range s.sc.C06.Invalid {
			if contains(ic.Formats, format) && (fi+len(ic.Class))%3 == 0 {
				r = rt.runCLI(w, ic.Config, format, target, nil)
				check(format, "invalid."+ic.Class, "setting is invalid ("+ic.Class+")", r, nil)
				break
			}
		}
	}
}

func b2i(b bool) int {
	if b {
		return 1
	}
	return 0
}

func oneLineS(s string) string {
	s = strings.ReplaceAll(s, "\n", " | ")
	if len(s) > 400 {
		s = s[:400] + "…"
	}
	return s
}
