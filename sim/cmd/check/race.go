package main

import (
	"errors"
	"time"

	"verifsim"
)

func (d *driver) perRunWorker(a workerArgs, timeout time.Duration) ([]byte, error) {
	return nil, errors.New("not built yet")
}

func (d *driver) raceRun(a workerArgs, timeout time.Duration) ([]byte, error) {
	return nil, errors.New("not built yet")
}

func (d *driver) attachRace(r *sim.RunResult, out []byte) {}

func (d *driver) minimiseC12(sc *sim.Scenario, try func(*sim.Scenario) *sim.Violation) *sim.Scenario {
	return sc
}

func (d *driver) instrument() (string, string, error) {
	return "", "", errors.New("not built yet")
}
