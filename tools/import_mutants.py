#!/usr/bin/env python3
# import_mutants.py <wave-note> <first-number> name:slug ... : copies confirmed
# seeded changes from /tmp/wt-<name> into /verif/seeded/S<nn>-C<pp>-<slug>/.
import json, os, shutil, sys
note, n = sys.argv[1], int(sys.argv[2])
for a in sys.argv[3:]:
    name, slug = a.split(':')
    prop = 'C' + name[1:3]
    sid = 'S%02d-%s-%s' % (n, prop, slug); n += 1
    d = '/verif/seeded/' + sid
    os.makedirs(d + '/demo', exist_ok=True)
    wt = '/tmp/wt-' + name
    shutil.copy(wt + '/MUTANT.diff', d + '/patch.diff')
    for f in os.listdir(wt + '/demo'):
        if os.path.isfile(wt + '/demo/' + f) and os.path.getsize(wt + '/demo/' + f) < 200000:
            shutil.copy(wt + '/demo/' + f, d + '/demo/' + f)
    meta = {'id': sid, 'breaks_property': prop,
            'source': 'fresh sub-agent given only the property text and its own scratch worktree (%s)' % note,
            'needs_to_manifest': open(wt + '/META.txt').read(),
            'confirmed': 'tools/confirm_mutant.sh ' + wt,
            'detected_by': '(pending)'}
    json.dump(meta, open(d + '/meta.json', 'w'), indent=1)
    print(sid)
