package main

import (
	"encoding/json"
	"fmt"
	"os"
	"path/filepath"
	"sort"
	"strings"
	"time"

	"verifsim"
)

// perRunWorker executes a shard one run per OS process: ThreadSanitizer
// de-duplicates reports per process, and a process that has seen a report is
// not reused, so every report is attributed to exactly one simulated run.
func (d *driver) perRunWorker(a workerArgs, timeout time.Duration) ([]byte, error) {
	f, err := os.Create(a.Out)
	if err != nil {
		return nil, err
	}
	defer f.Close()
	deadline := time.Now().Add(timeout)
	var lastOut []byte
	for i := a.From + a.Offset; i < a.To; i += a.Stride {
		if time.Now().After(deadline) {
			return lastOut, fmt.Errorf("watchdog: shard timed out after %v", timeout)
		}
		one := a
		one.From, one.To, one.Stride, one.Offset = i, i+1, 1, 0
		one.Out = a.Out + fmt.Sprintf(".run%d", i)
		out, err := d.raceRun(one, 10*time.Minute)
		lastOut = out
		rs, rerr := readResults(one.Out)
		os.Remove(one.Out)
		retried := false
		if len(rs) != 1 {
			// a lost run (watchdog) is harness trouble, not a verdict: one retry
			retried = true
			out, err = d.raceRun(one, 3*time.Minute)
			rs, rerr = readResults(one.Out)
			os.Remove(one.Out)
		}
		if len(rs) != 1 {
			// one lost run (watchdog, crash) must not lose the rest of the shard
			rs = []sim.RunResult{{Run: i, Trouble: fmt.Sprintf("run %d: no result (%v, %v): %s", i, err, rerr, tail(out, 1500))}}
		}
		d.attachRace(&rs[0], out)
		if retried && rs[0].Trouble == "" {
			if rs[0].Counters == nil {
				rs[0].Counters = map[string]int64{}
			}
			rs[0].Counters["watchdog_retries"]++
		}
		b, _ := json.Marshal(&rs[0])
		f.Write(b)
		f.Write([]byte{'\n'})
	}
	return lastOut, nil
}

func (d *driver) raceRun(a workerArgs, timeout time.Duration) ([]byte, error) {
	if a.Samples == 0 {
		a.Samples = 1 // always embed the scenario (with its recorded schedule)
	}
	return d.worker(a, timeout, nil)
}

type raceAccess struct {
	kind   string
	frames []raceFrame
}

type raceFrame struct {
	fn   string
	file string
}

func parseRaceReports(out []byte) [][]string {
	var reports [][]string
	lines := strings.Split(string(out), "\n")
	var cur []string
	in := false
	for _, l := range lines {
		if strings.HasPrefix(l, "==================") {
			if in && len(cur) > 0 {
				reports = append(reports, cur)
			}
			cur = nil
			in = !in
			continue
		}
		if in {
			cur = append(cur, l)
		}
	}
	var races [][]string
	for _, r := range reports {
		if len(r) > 0 && strings.Contains(r[0], "DATA RACE") {
			races = append(races, r)
		}
	}
	return races
}

func parseAccesses(report []string) []raceAccess {
	var out []raceAccess
	var cur *raceAccess
	for i := 0; i < len(report); i++ {
		l := report[i]
		t := strings.TrimSpace(l)
		if strings.HasPrefix(t, "Write at") || strings.HasPrefix(t, "Read at") || strings.HasPrefix(t, "Previous write at") || strings.HasPrefix(t, "Previous read at") ||
			strings.HasPrefix(t, "Atomic") || strings.HasPrefix(t, "Previous atomic") {
			out = append(out, raceAccess{kind: t})
			cur = &out[len(out)-1]
			continue
		}
		if t == "" || strings.HasPrefix(t, "Goroutine ") {
			cur = nil
			continue
		}
		if cur != nil && strings.HasPrefix(l, "  ") && !strings.HasPrefix(l, "      ") {
			fr := raceFrame{fn: strings.TrimSuffix(t, "()")}
			if i+1 < len(report) && strings.HasPrefix(report[i+1], "      ") {
				fr.file = strings.Fields(strings.TrimSpace(report[i+1]))[0]
				i++
			}
			cur.frames = append(cur.frames, fr)
		}
	}
	return out
}

func isHarnessFrame(f raceFrame) bool {
	return strings.HasPrefix(f.fn, "verifsim") || strings.HasPrefix(f.file, simDir+"/") || strings.HasPrefix(f.fn, "testing.")
}

func isSubjectFrame(f raceFrame) bool {
	if isHarnessFrame(f) {
		return false
	}
	if strings.HasPrefix(f.file, "/opt/veriftools/") || strings.Contains(f.file, "/go1.26.8/src/") {
		return false
	}
	return true
}

func stripLine(file string) string {
	if i := strings.LastIndex(file, ":"); i > 0 {
		return file[:i]
	}
	return file
}

// attributeAccess returns the frame that names the access: the innermost
// frame in nfpm or a third-party library.
func attributeAccess(a raceAccess) (raceFrame, bool) {
	// the innermost nfpm frame names the access (that is where a repair
	// would go); a race entirely inside a library falls back to its frame
	for _, f := range a.frames {
		if strings.HasPrefix(f.fn, "github.com/goreleaser/nfpm/v2") && !strings.Contains(f.fn, "/simyield.") {
			return f, true
		}
	}
	for _, f := range a.frames {
		if isSubjectFrame(f) {
			return f, true
		}
	}
	return raceFrame{}, false
}

// attachRace turns ThreadSanitizer reports in a run's output into violations
// (or, when only harness frames are involved, into harness trouble).
func (d *driver) attachRace(r *sim.RunResult, out []byte) {
	races := parseRaceReports(out)
	if r.Counters == nil {
		r.Counters = map[string]int64{}
	}
	for _, rep := range races {
		acc := parseAccesses(rep)
		var names []string
		subject := false
		for _, a := range acc {
			if f, ok := attributeAccess(a); ok {
				subject = true
				names = append(names, f.fn+" ("+filepath.Base(stripLine(f.file))+")")
			} else if len(a.frames) > 0 {
				names = append(names, "harness:"+a.frames[0].fn)
			}
		}
		text := strings.Join(rep, "\n")
		if len(text) > 8000 {
			text = text[:8000] + "\n…"
		}
		if !subject {
			r.Trouble = "race report that involves only harness frames:\n" + text
			continue
		}
		sort.Strings(names)
		group := strings.Join(names, " <-> ")
		r.Counters["race_reports"]++
		dup := false
		for _, v := range r.Violations {
			if v.Group == group {
				dup = true
			}
		}
		if dup {
			continue
		}
		detail := "DATA RACE between " + group
		if len(acc) >= 2 {
			detail += fmt.Sprintf(" [%s / %s]", acc[0].kind, acc[1].kind)
		}
		r.Violations = append(r.Violations, sim.Violation{Property: "C12", Oracle: "race", Group: group, Class: "data-race", Detail: detail, RaceText: text})
	}
}

// minimiseC12: drop clients, then context switches, while the same violation
// persists. Race violations are re-run in a fresh process per candidate.
func (d *driver) minimiseC12(sc *sim.Scenario, try func(*sim.Scenario) *sim.Violation) *sim.Scenario {
	cur := sc
	if cur.C12.Mode != "baton" {
		return cur
	}
	// freeze the schedule: from here on the recorded switch points are read
	if !cur.C12.Replay {
		c := cloneScenario(cur)
		c.C12.Replay = true
		if v := try(c); v != nil {
			c.Violation = v
			cur = c
		} else {
			return cur
		}
	}
	// drop context switches, last first (keeps the hand-over to the racing client)
	for i := len(cur.C12.Schedule) - 1; i >= 1; i-- {
		c := cloneScenario(cur)
		c.C12.Schedule = append(append([]sim.Switch{}, c.C12.Schedule[:i]...), c.C12.Schedule[i+1:]...)
		if v := try(c); v != nil {
			c.Violation = v
			cur = c
		}
	}
	return cur
}
