package sim

import (
	"fmt"
	"os"
	"path/filepath"
	"sort"
	"strings"
	"syscall"
	"time"
)

// KeysDir is where the committed harness keys live.
var KeysDir = keysDir()

func keysDir() string {
	if h := os.Getenv("VERIF_HOME"); h != "" {
		return h + "/keys"
	}
	return "/verif/keys"
}

// Materialize writes the scenario's tree under root (root is wiped first).
func Materialize(root string, tree []TreeEntry) error {
	return MaterializeOrder(root, tree, false)
}

// MaterializeOrder: with reverse=true the entries are created in reverse
// order, so that anything depending on directory creation / readdir order of
// the underlying file system shows up as a difference between two roots.
func MaterializeOrder(root string, tree []TreeEntry, reverse bool) error {
	if reverse {
		r := make([]TreeEntry, len(tree))
		for i, e := range tree {
			r[len(tree)-1-i] = e
		}
		tree = r
	}
	if err := os.RemoveAll(root); err != nil {
		return err
	}
	if err := os.MkdirAll(root, 0o755); err != nil {
		return err
	}
	// directories first, then files, then symlinks; mtimes of dirs last.
	for _, e := range tree {
		if e.Kind != "dir" {
			continue
		}
		if err := os.MkdirAll(filepath.Join(root, e.Path), 0o755); err != nil {
			return err
		}
	}
	for _, e := range tree {
		if err := materializeOne(root, e); err != nil {
			return err
		}
	}
	// directory modes and mtimes, deepest first so that creating children
	// does not disturb parents afterwards.
	dirs := []TreeEntry{}
	for _, e := range tree {
		if e.Kind == "dir" {
			dirs = append(dirs, e)
		}
	}
	sort.SliceStable(dirs, func(i, j int) bool { return len(dirs[i].Path) > len(dirs[j].Path) })
	for _, e := range dirs {
		p := filepath.Join(root, e.Path)
		if e.Mode != 0 {
			if err := os.Chmod(p, os.FileMode(e.Mode)); err != nil {
				return err
			}
		}
		if e.MTime != 0 {
			t := time.Unix(e.MTime, 0)
			if err := os.Chtimes(p, t, t); err != nil {
				return err
			}
		}
	}
	return nil
}

func materializeOne(root string, e TreeEntry) error {
	p := filepath.Join(root, e.Path)
	switch e.Kind {
	case "dir":
		return nil
	case "symlink":
		if err := os.MkdirAll(filepath.Dir(p), 0o755); err != nil {
			return err
		}
		os.Remove(p)
		return os.Symlink(e.Target, p)
	case "chardev":
		// a character device node like /dev/null (1,3): reads as empty
		if err := os.MkdirAll(filepath.Dir(p), 0o755); err != nil {
			return err
		}
		os.Remove(p)
		if err := syscall.Mknod(p, syscall.S_IFCHR|0o666, 1<<8|3); err != nil {
			return err
		}
		if err := os.Chmod(p, 0o666); err != nil {
			return err
		}
		if e.MTime != 0 {
			t := time.Unix(e.MTime, 0)
			return os.Chtimes(p, t, t)
		}
		return nil
	case "file":
		if err := os.MkdirAll(filepath.Dir(p), 0o755); err != nil {
			return err
		}
		var data []byte
		switch {
		case e.KeyRef != "":
			b, err := os.ReadFile(filepath.Join(KeysDir, e.KeyRef))
			if err != nil {
				return fmt.Errorf("key %s: %w", e.KeyRef, err)
			}
			data = b
		case e.Text != "":
			data = []byte(e.Text)
		default:
			data = fillBytes(e.Fill, e.Size)
		}
		os.Remove(p)
		if err := os.WriteFile(p, data, 0o600); err != nil {
			return err
		}
		mode := os.FileMode(e.Mode)
		if mode == 0 {
			mode = 0o644
		}
		if err := os.Chmod(p, toOSMode(uint32(mode))); err != nil {
			return err
		}
		if e.MTime != 0 {
			t := time.Unix(e.MTime, 0)
			if err := os.Chtimes(p, t, t); err != nil {
				return err
			}
		}
		return nil
	}
	return fmt.Errorf("unknown tree kind %q", e.Kind)
}

// toOSMode converts unix permission bits incl. setuid/setgid/sticky (octal
// 07777 layout) to Go's os.FileMode layout.
func toOSMode(m uint32) os.FileMode {
	fm := os.FileMode(m & 0o777)
	if m&0o4000 != 0 {
		fm |= os.ModeSetuid
	}
	if m&0o2000 != 0 {
		fm |= os.ModeSetgid
	}
	if m&0o1000 != 0 {
		fm |= os.ModeSticky
	}
	return fm
}

// ApplyFSFault edits the materialised tree; the returned func restores it.
func ApplyFSFault(root string, tree []TreeEntry, f *FSFault) (restore func() error, err error) {
	p := filepath.Join(root, f.Path)
	// everything at or below f.Path has to be re-created afterwards
	restore = func() error {
		if err := os.RemoveAll(p); err != nil {
			return err
		}
		var sub []TreeEntry
		for _, e := range tree {
			if e.Path == f.Path || strings.HasPrefix(e.Path, f.Path+"/") {
				sub = append(sub, e)
			}
		}
		for _, e := range sub {
			if e.Kind == "dir" {
				if err := os.MkdirAll(filepath.Join(root, e.Path), 0o755); err != nil {
					return err
				}
			}
		}
		for _, e := range sub {
			if err := materializeOne(root, e); err != nil {
				return err
			}
		}
		sort.SliceStable(sub, func(i, j int) bool { return len(sub[i].Path) > len(sub[j].Path) })
		for _, e := range sub {
			if e.Kind == "dir" {
				q := filepath.Join(root, e.Path)
				if e.Mode != 0 {
					os.Chmod(q, os.FileMode(e.Mode))
				}
				if e.MTime != 0 {
					t := time.Unix(e.MTime, 0)
					os.Chtimes(q, t, t)
				}
			}
		}
		// parent directory mtime was disturbed: restore it too
		parent := filepath.Dir(f.Path)
		for _, e := range tree {
			if e.Kind == "dir" && e.Path == parent && e.MTime != 0 {
				t := time.Unix(e.MTime, 0)
				os.Chtimes(filepath.Join(root, e.Path), t, t)
			}
		}
		return nil
	}
	switch f.Kind {
	case "remove":
		err = os.RemoveAll(p)
	case "dir":
		if err = os.RemoveAll(p); err == nil {
			err = os.MkdirAll(p, 0o755)
		}
	case "dangling":
		if err = os.RemoveAll(p); err == nil {
			err = os.Symlink("/nonexistent/verif-dangling-target", p)
		}
	case "truncate":
		var b []byte
		if b, err = os.ReadFile(p); err == nil {
			err = os.WriteFile(p, b[:len(b)/3], 0o600)
		}
	case "garbage":
		err = os.WriteFile(p, fillBytes(0x1234567, 700), 0o600)
	case "empty":
		err = os.WriteFile(p, nil, 0o600)
	case "replace":
		var b []byte
		if b, err = os.ReadFile(filepath.Join(KeysDir, f.KeyRef)); err == nil {
			if err = os.WriteFile(p, b, 0o600); err == nil {
				for _, e := range tree {
					if e.Path == f.Path && e.MTime != 0 {
						t := time.Unix(e.MTime, 0)
						err = os.Chtimes(p, t, t)
					}
				}
			}
		}
	case "unreadable":
		// mode 000: opening (a file) or listing (a directory) is denied once
		// the DAC capabilities are dropped (see WithoutFilePrivileges)
		err = os.Chmod(p, 0)
	case "eio":
		// a file that opens but whose read(2) fails with EIO, in-process and
		// without hooks: /proc/self/mem read at offset 0
		if err = os.RemoveAll(p); err == nil {
			err = os.Symlink("/proc/self/mem", p)
		}
	default:
		err = fmt.Errorf("unknown fs fault %q", f.Kind)
	}
	if err != nil {
		return restore, err
	}
	// keep the parent directory's mtime as the scenario says (tree entries
	// read directory mtimes).
	parent := filepath.Dir(f.Path)
	for _, e := range tree {
		if e.Kind == "dir" && e.Path == parent && e.MTime != 0 {
			t := time.Unix(e.MTime, 0)
			os.Chtimes(filepath.Join(root, e.Path), t, t)
		}
	}
	return restore, nil
}
