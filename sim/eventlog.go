package sim

import (
	"crypto/sha256"
	"encoding/hex"
	"encoding/json"
	"fmt"
	"hash"
	"os"
)

// EventLog is the run's recorded history reduced to a hash: two runs of one
// seed must produce the same sum (determinism self-test, replay check).
// Logging never draws from the PRNG and never reads a clock.
type EventLog struct {
	h    hash.Hash
	n    int
	keep *os.File // VERIF_ELOG_FILE: the text itself, for the determinism self-test's diff
}

func NewEventLog() *EventLog {
	e := &EventLog{h: sha256.New()}
	if p := os.Getenv("VERIF_ELOG_FILE"); p != "" {
		e.keep, _ = os.OpenFile(p, os.O_CREATE|os.O_WRONLY|os.O_APPEND, 0o644)
	}
	return e
}

func (e *EventLog) Add(format string, args ...any) {
	fmt.Fprintf(e.h, format, args...)
	e.h.Write([]byte{'\n'})
	if e.keep != nil {
		fmt.Fprintf(e.keep, format, args...)
		e.keep.Write([]byte{'\n'})
	}
	e.n++
}

// Case logs a build: the case, whether it failed, and the bytes the sink got.
// Error texts are not logged (they contain the per-process scratch path).
func (e *EventLog) Case(c *Case, r *BuildResult, volatile bool) {
	cj, _ := json.Marshal(c)
	if volatile {
		// signed through nfpm's key-file path: go-crypto salts signatures, so
		// bytes, lengths, the sizes of the writes - and with them which fault
		// cases exist at all (a partial write needs a write of two bytes or
		// more) and how long a partial write is - differ from build to build.
		// That randomness is not a seam of this harness (DESIGN 10.2); these
		// cases keep their oracles but are not part of the replay hash.
		return
	}
	sum := sha256.Sum256(r.Bytes)
	e.Add("case %s parse_failed=%v failed=%v fired=%d trace=%v bytes=%d sha=%x", cj, r.ParseErr != nil, r.Err != nil, r.Fired, r.Trace, len(r.Bytes), sum[:8])
}

func (e *EventLog) Sum() string { return hex.EncodeToString(e.h.Sum(nil))[:32] }
