package main

import (
	"fmt"
	"os"
	"path/filepath"
	"strings"
	"sync"
)

// determinism: every run index is executed reps times, each in its own OS
// process, cycling GOMAXPROCS 1/4/16 (and two different worker layouts); the
// event-log hashes must be identical per run seed.
func (d *driver) determinism(from, runs, reps int) int {
	type key struct{ run, rep int }
	hashes := map[key]string{}
	var mu sync.Mutex
	var wg sync.WaitGroup
	sem := make(chan struct{}, 16)
	bad := 0
	gmps := []string{"1", "4", "16"}
	for i := from; i < from+runs; i++ {
		for rep := 0; rep < reps; rep++ {
			wg.Add(1)
			sem <- struct{}{}
			go func(i, rep int) {
				defer wg.Done()
				defer func() { <-sem }()
				tag := fmt.Sprintf("det-%d-%d", i, rep)
				a := workerArgs{Mode: "explore", Property: d.prop, VerifSeed: d.seed, From: i, To: i + 1, Stride: 1,
					Out: filepath.Join(d.scratch, tag+".jsonl"), Root: filepath.Join(d.scratch, tag, "root")}
				out, err := d.worker(a, d.cfg.WorkerTimeout, []string{"GOMAXPROCS=" + gmps[rep%len(gmps)], "VERIF_ELOG_FILE=" + filepath.Join(d.scratch, tag+".elog")})
				rs, rerr := readResults(a.Out)
				mu.Lock()
				defer mu.Unlock()
				if err != nil || rerr != nil || len(rs) != 1 {
					trouble("determinism run %d rep %d: %v %v\n%s", i, rep, err, rerr, tail(out, 1500))
					bad++
					return
				}
				hashes[key{i, rep}] = rs[0].LogHash
			}(i, rep)
		}
	}
	wg.Wait()
	for i := from; i < from+runs; i++ {
		for rep := 1; rep < reps; rep++ {
			if hashes[key{i, rep}] != hashes[key{i, 0}] {
				fmt.Printf("NONDETERMINISM run %d: rep0=%s rep%d=%s\n", i, hashes[key{i, 0}], rep, hashes[key{i, rep}])
				a, _ := os.ReadFile(filepath.Join(d.scratch, fmt.Sprintf("det-%d-0.elog", i)))
				b, _ := os.ReadFile(filepath.Join(d.scratch, fmt.Sprintf("det-%d-%d.elog", i, rep)))
				la, lb := strings.Split(string(a), "\n"), strings.Split(string(b), "\n")
				for k := 0; k < len(la) || k < len(lb); k++ {
					x, y := "", ""
					if k < len(la) {
						x = la[k]
					}
					if k < len(lb) {
						y = lb[k]
					}
					if x != y {
						fmt.Printf("  first difference at event %d:\n    rep0: %.400s\n    rep%d: %.400s\n", k, x, rep, y)
						break
					}
				}
				bad++
			}
		}
	}
	fmt.Printf("determinism self-test %s: %d runs x %d repetitions (GOMAXPROCS 1/4/16, separate processes): %d mismatches\n", d.prop, runs, reps, bad)
	if bad > 0 {
		return 2
	}
	return 0
}
