package sim

import (
	"bytes"
	"crypto"
	"crypto/rand"
	"crypto/rsa"
	"crypto/x509"
	"encoding/pem"
	"errors"
	"fmt"
	"io"
	"os"
	"path/filepath"
	"time"

	"github.com/ProtonMail/go-crypto/openpgp"
	"github.com/ProtonMail/go-crypto/openpgp/clearsign"
	"github.com/ProtonMail/go-crypto/openpgp/packet"
)

// ErrSignerSentinel is the simulated signer's own error ("KMS unavailable").
var ErrSignerSentinel = errors.New("verif: simulated signer failure (remote signer unavailable)")

// KeyPass is the passphrase of the protected harness keys.
const KeyPass = "hunter2 verif"

// SignTime is the creation time the simulated signer stamps on OpenPGP
// signatures, so that callback-signed packages are a function of the input.
var SignTime = FakeEpoch.Add(SimNow)

// SimSigner is the simulated remote signer (seam S2): it records the bytes
// it is handed, answers per plan, and is a scheduler yield point.
type SimSigner struct {
	Kind  string // debsign | dpkg-sig | rpm | apk
	Fault *SignerFault
	Yield func(site string)
	// Binary: the debsign signature is returned as binary OpenPGP packets
	// (what gpg --detach-sign writes by default) instead of ASCII armor
	Binary bool

	Calls  [][]byte // bytes read from the reader, per call
	Failed int      // calls answered with the sentinel

	ent *openpgp.Entity
	rsa *rsa.PrivateKey
}

func NewSimSigner(kind string, f *SignerFault) *SimSigner {
	return &SimSigner{Kind: kind, Fault: f}
}

func loadPGPPrivate(name, pass string) (*openpgp.Entity, error) {
	b, err := os.ReadFile(filepath.Join(KeysDir, name))
	if err != nil {
		return nil, err
	}
	var el openpgp.EntityList
	if bytes.HasPrefix(b, []byte("-----BEGIN")) {
		el, err = openpgp.ReadArmoredKeyRing(bytes.NewReader(b))
	} else {
		el, err = openpgp.ReadKeyRing(bytes.NewReader(b))
	}
	if err != nil {
		return nil, err
	}
	if len(el) != 1 {
		return nil, fmt.Errorf("%s: %d entities", name, len(el))
	}
	e := el[0]
	if e.PrivateKey != nil && e.PrivateKey.Encrypted {
		if err := e.PrivateKey.Decrypt([]byte(pass)); err != nil {
			return nil, err
		}
		for _, s := range e.Subkeys {
			if s.PrivateKey != nil && s.PrivateKey.Encrypted {
				if err := s.PrivateKey.Decrypt([]byte(pass)); err != nil {
					return nil, err
				}
			}
		}
	}
	return e, nil
}

func loadPGPPublic(name string) (openpgp.EntityList, error) {
	b, err := os.ReadFile(filepath.Join(KeysDir, name))
	if err != nil {
		return nil, err
	}
	if bytes.HasPrefix(b, []byte("-----BEGIN")) {
		return openpgp.ReadArmoredKeyRing(bytes.NewReader(b))
	}
	return openpgp.ReadKeyRing(bytes.NewReader(b))
}

func loadRSAPrivate(name string) (*rsa.PrivateKey, error) {
	b, err := os.ReadFile(filepath.Join(KeysDir, name))
	if err != nil {
		return nil, err
	}
	blk, _ := pem.Decode(b)
	if blk == nil {
		return nil, errors.New("no pem block")
	}
	return x509.ParsePKCS1PrivateKey(blk.Bytes)
}

func loadRSAPublic(name string) (*rsa.PublicKey, error) {
	b, err := os.ReadFile(filepath.Join(KeysDir, name))
	if err != nil {
		return nil, err
	}
	blk, _ := pem.Decode(b)
	if blk == nil {
		return nil, errors.New("no pem block")
	}
	k, err := x509.ParsePKIXPublicKey(blk.Bytes)
	if err != nil {
		return nil, err
	}
	pk, ok := k.(*rsa.PublicKey)
	if !ok {
		return nil, errors.New("not rsa")
	}
	return pk, nil
}

// Prepare loads this signer's private copy of the key (never shared between
// clients: the harness must not create shared state of its own).
func (s *SimSigner) Prepare() error {
	var err error
	if s.Kind == "apk" {
		s.rsa, err = loadRSAPrivate("rsa_a.priv")
	} else {
		s.ent, err = loadPGPPrivate("pgp_a.asc", "")
	}
	return err
}

// Fn is what goes into PackageSignature.SignFn.
func (s *SimSigner) Fn() func(io.Reader) ([]byte, error) {
	return func(r io.Reader) ([]byte, error) {
		if s.Yield != nil {
			s.Yield("signer.call")
		}
		call := len(s.Calls) + 1
		if s.Fault != nil && s.Fault.FailCall == call {
			var got []byte
			if s.Fault.ReadN < 0 {
				got, _ = io.ReadAll(r)
			} else {
				got = make([]byte, s.Fault.ReadN)
				n, _ := io.ReadFull(r, got)
				got = got[:n]
			}
			s.Calls = append(s.Calls, got)
			s.Failed++
			if s.Fault.WithBytes {
				return []byte("-----BEGIN PGP SIGNATURE-----\n\niQEzBAABCAAdFiEE (output cut off: the signer was killed)"), ErrSignerSentinel
			}
			return nil, ErrSignerSentinel
		}
		data, err := io.ReadAll(r)
		if err != nil {
			return nil, err
		}
		s.Calls = append(s.Calls, data)
		noSalt := false
		cfg := &packet.Config{DefaultHash: crypto.SHA256, Time: func() time.Time { return SignTime }, NonDeterministicSignaturesViaNotation: &noSalt}
		var out bytes.Buffer
		switch s.Kind {
		case "debsign":
			if s.Binary {
				err = openpgp.DetachSign(&out, s.ent, bytes.NewReader(data), cfg)
			} else {
				err = openpgp.ArmoredDetachSign(&out, s.ent, bytes.NewReader(data), cfg)
			}
		case "dpkg-sig":
			var wc io.WriteCloser
			wc, err = clearsign.Encode(&out, s.ent.PrivateKey, cfg)
			if err == nil {
				if _, err = wc.Write(data); err == nil {
					err = wc.Close()
				}
			}
		case "rpm":
			err = openpgp.DetachSign(&out, s.ent, bytes.NewReader(data), cfg)
		case "apk":
			var sig []byte
			sig, err = rsa.SignPKCS1v15(rand.Reader, s.rsa, crypto.SHA1, data)
			out.Write(sig)
		default:
			err = fmt.Errorf("unknown signer kind %q", s.Kind)
		}
		if err != nil {
			return nil, fmt.Errorf("harness signer: %w", err)
		}
		return out.Bytes(), nil
	}
}
