// instr rewrites a scratch copy of the nfpm module: it inserts
// simyield.Here(<id>) at every function entry, at the top of every loop body
// and between deferred calls in the non-test files of the packaging packages (functions that take a
// lock are skipped: never park while holding one), and adds the tiny simyield
// package to the copy. The harness installs a hook there (build tag
// verifinstr) that turns each site into a scheduler yield point for client
// goroutines. Nothing of this is ever written to /repo.
package main

import (
	"bytes"
	"fmt"
	"go/ast"
	"go/format"
	"go/parser"
	"go/token"
	"os"
	"path/filepath"
	"strconv"
	"strings"
)

const simyieldSrc = `// Package simyield is added to scratch copies of nfpm by the verification
// harness; it does nothing unless a hook is installed.
package simyield

// Hook is set once, before any client goroutine starts.
var Hook func(site int)

func Here(site int) {
	if h := Hook; h != nil {
		h(site)
	}
}

// Release marks a site right after something was handed back (Close, Put,
// Flush ...) or between deferred calls; sites are reported negated.
func Release(site int) {
	if h := Hook; h != nil {
		h(-site)
	}
}
`

var dirs = []string{".", "files", "deb", "rpm", "apk", "arch", "ipk", "internal/glob", "internal/modtime", "internal/maps", "internal/sign", "deprecation"}

func takesLock(fn *ast.FuncDecl) bool {
	found := false
	ast.Inspect(fn, func(n ast.Node) bool {
		if c, ok := n.(*ast.CallExpr); ok {
			if s, ok := c.Fun.(*ast.SelectorExpr); ok && (s.Sel.Name == "Lock" || s.Sel.Name == "RLock") {
				found = true
			}
		}
		return true
	})
	return found
}

// deferYields puts "defer simyield.Here(n)" in front of every defer statement
// of a statement list: deferred calls run last-in first-out, so the yield runs
// right after the deferred call that follows it in the source - a yield point
// between any two deferred calls and after the last one (clean-up order:
// Put before Close, Close before Unlock, ...).
//
// It also puts a yield right after every statement that releases something
// (a call of Close, Put, Flush, Release or Reset, also as "if err := x.Close();
// ..."): the window between handing a resource back and the last use of it.
func deferYields(list []ast.Stmt, mk func(pos token.Pos) ast.Stmt) []ast.Stmt {
	var out []ast.Stmt
	for _, st := range list {
		if d, ok := st.(*ast.DeferStmt); ok {
			y := mk(d.Pos()).(*ast.ExprStmt)
			out = append(out, &ast.DeferStmt{Call: y.X.(*ast.CallExpr)})
		}
		out = append(out, st)
		if releases(st) {
			out = append(out, mk(st.End()))
		}
	}
	return out
}

func isReleaseCall(e ast.Expr) bool {
	c, ok := e.(*ast.CallExpr)
	if !ok {
		return false
	}
	sel, ok := c.Fun.(*ast.SelectorExpr)
	if !ok {
		return false
	}
	switch sel.Sel.Name {
	case "Close", "Put", "Flush", "Release", "Reset":
		return true
	}
	return false
}

func releases(st ast.Stmt) bool {
	switch s := st.(type) {
	case *ast.ExprStmt:
		return isReleaseCall(s.X)
	case *ast.AssignStmt:
		return len(s.Rhs) == 1 && isReleaseCall(s.Rhs[0])
	case *ast.IfStmt:
		return s.Init != nil && releases(s.Init)
	}
	return false
}

func main() {
	root := os.Args[1]
	site := 0
	var sites []string
	for _, d := range dirs {
		ents, err := os.ReadDir(filepath.Join(root, d))
		if err != nil {
			continue
		}
		for _, e := range ents {
			name := e.Name()
			if e.IsDir() || !strings.HasSuffix(name, ".go") || strings.HasSuffix(name, "_test.go") {
				continue
			}
			path := filepath.Join(root, d, name)
			fset := token.NewFileSet()
			f, err := parser.ParseFile(fset, path, nil, parser.ParseComments)
			if err != nil {
				fmt.Fprintln(os.Stderr, "parse:", err)
				os.Exit(1)
			}
			changed := false
			mk := func(pos token.Pos, what string) ast.Stmt {
				site++
				p := fset.Position(pos)
				sites = append(sites, fmt.Sprintf("%d\t%s:%d\t%s", site, filepath.Join(d, name), p.Line, what))
				changed = true
				return &ast.ExprStmt{X: &ast.CallExpr{
					Fun:  &ast.SelectorExpr{X: ast.NewIdent("simyield"), Sel: ast.NewIdent("Here")},
					Args: []ast.Expr{&ast.BasicLit{Kind: token.INT, Value: strconv.Itoa(site)}},
				}}
			}
			mkRel := func(pos token.Pos, what string) ast.Stmt {
				st := mk(pos, what).(*ast.ExprStmt)
				st.X.(*ast.CallExpr).Fun.(*ast.SelectorExpr).Sel = ast.NewIdent("Release")
				return st
			}
			for _, decl := range f.Decls {
				fn, ok := decl.(*ast.FuncDecl)
				if !ok || fn.Body == nil || fn.Name.Name == "init" || takesLock(fn) {
					continue
				}
				ast.Inspect(fn.Body, func(n ast.Node) bool {
					switch s := n.(type) {
					case *ast.ForStmt:
						s.Body.List = append([]ast.Stmt{mk(s.Pos(), "loop in "+fn.Name.Name)}, s.Body.List...)
					case *ast.RangeStmt:
						s.Body.List = append([]ast.Stmt{mk(s.Pos(), "loop in "+fn.Name.Name)}, s.Body.List...)
					case *ast.BlockStmt:
						s.List = deferYields(s.List, func(pos token.Pos) ast.Stmt { return mkRel(pos, "deferred call or release in "+fn.Name.Name) })
					case *ast.CaseClause:
						s.Body = deferYields(s.Body, func(pos token.Pos) ast.Stmt { return mkRel(pos, "deferred call or release in "+fn.Name.Name) })
					case *ast.CommClause:
						s.Body = deferYields(s.Body, func(pos token.Pos) ast.Stmt { return mkRel(pos, "deferred call or release in "+fn.Name.Name) })
					}
					return true
				})
				fn.Body.List = append([]ast.Stmt{mk(fn.Pos(), "entry of "+fn.Name.Name)}, fn.Body.List...)
			}
			if !changed {
				continue
			}
			imp := &ast.GenDecl{Tok: token.IMPORT, Specs: []ast.Spec{&ast.ImportSpec{
				Name: ast.NewIdent("simyield"),
				Path: &ast.BasicLit{Kind: token.STRING, Value: strconv.Quote("github.com/goreleaser/nfpm/v2/simyield")},
			}}}
			f.Decls = append([]ast.Decl{imp}, f.Decls...)
			var buf bytes.Buffer
			if err := format.Node(&buf, fset, f); err != nil {
				fmt.Fprintln(os.Stderr, "format:", path, err)
				os.Exit(1)
			}
			if err := os.WriteFile(path, buf.Bytes(), 0o644); err != nil {
				fmt.Fprintln(os.Stderr, err)
				os.Exit(1)
			}
		}
	}
	os.MkdirAll(filepath.Join(root, "simyield"), 0o755)
	os.WriteFile(filepath.Join(root, "simyield", "simyield.go"), []byte(simyieldSrc), 0o644)
	os.WriteFile(filepath.Join(root, "simyield", "SITES.txt"), []byte(strings.Join(sites, "\n")+"\n"), 0o644)
	fmt.Printf("instrumented %d sites\n", site)
}
