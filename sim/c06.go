package sim

import (
	"fmt"
	"runtime"
	"sort"
	"strings"
)

// GenC06 draws one C06 scenario.
func GenC06(verifSeed uint64, run int) *Scenario {
	seed := Mix(verifSeed, 6, uint64(run))
	g := NewRng(seed)
	w, cfg := GenWorldCfg(g, GenOpts{})
	plan := &C06Plan{
		SrcMode:    Pick(g, []string{"rel", "rel", "abs", "dotdot"}),
		GoMaxProcs: Pick(g, []int{1, 2, 4, 16}),
	}
	for _, f := range Formats {
		plan.Variants = append(plan.Variants, Variant{Format: f})
		if signable(f) && (g.Bool(0.4) || contains(w.Signed, f)) {
			plan.Variants = append(plan.Variants, Variant{Format: f, Sign: "callback"})
		}
		if contains(w.Signed, f) && g.Bool(0.3) {
			plan.Variants = append(plan.Variants, Variant{Format: f, Sign: "none"})
		}
	}
	for i := 0; i < 64; i++ {
		plan.PartialN = append(plan.PartialN, g.Uint64())
	}
	plan.Invalid = genInvalid(g, &w, cfg)
	plan.CLI = g.Bool(0.35)
	return &Scenario{Property: "C06", VerifSeed: verifSeed, Run: run, RunSeed: seed, World: w, C06: plan}
}

func cloneTree(v any) any {
	switch t := v.(type) {
	case map[string]any:
		m := make(map[string]any, len(t))
		for k, e := range t {
			m[k] = cloneTree(e)
		}
		return m
	case []any:
		l := make([]any, len(t))
		for i, e := range t {
			l[i] = cloneTree(e)
		}
		return l
	}
	return v
}

// normalizeSig moves the effective signature settings of deb/rpm/apk to the
// top-level format block: fields given in overrides.<f>.<f>.signature win
// (that is what Config.Get does), and the override's signature block is
// removed. Variants derived from a configuration are patched after this, so a
// patch is effective wherever the original kept its signature settings.
func normalizeSig(m map[string]any) {
	ov, _ := m["overrides"].(map[string]any)
	for _, f := range []string{"deb", "rpm", "apk"} {
		fo, _ := ov[f].(map[string]any)
		inner, _ := fo[f].(map[string]any)
		osig, _ := inner["signature"].(map[string]any)
		if osig == nil {
			continue
		}
		top := subMap(subMap(m, f), "signature")
		for k, v := range osig {
			top[k] = v
		}
		delete(inner, "signature")
		if len(inner) == 0 {
			delete(fo, f)
		}
		if len(fo) == 0 {
			delete(ov, f)
		}
	}
	if ov != nil && len(ov) == 0 {
		delete(m, "overrides")
	}
}

func subMap(m map[string]any, key string) map[string]any {
	if s, ok := m[key].(map[string]any); ok {
		return s
	}
	s := map[string]any{}
	m[key] = s
	return s
}

// genInvalid derives the invalid-setting classes of the property from the
// valid configuration (each differs from it in exactly one setting).
func genInvalid(g *Rng, w *World, cfg map[string]any) []InvalidCase {
	var out []InvalidCase
	mk := func(class string, formats []string, patch func(m map[string]any)) {
		m := cloneTree(cfg).(map[string]any)
		normalizeSig(m)
		patch(m)
		out = append(out, InvalidCase{Class: class, Config: RenderConfig(m), Formats: formats})
	}
	all := Formats
	mk("deb.compression.unknown", []string{"deb"}, func(m map[string]any) { subMap(m, "deb")["compression"] = "lz4" })
	mk("rpm.compression.unknown", []string{"rpm"}, func(m map[string]any) { subMap(m, "rpm")["compression"] = "brotli" })
	mk("rpm.compression.level", []string{"rpm"}, func(m map[string]any) { subMap(m, "rpm")["compression"] = "gzip:fast" })
	mk("rpm.epoch.nonnumeric", []string{"rpm"}, func(m map[string]any) { m["epoch"] = "one" })
	mk("platform.notlinux", []string{"apk", "archlinux"}, func(m map[string]any) { m["platform"] = "darwin" })
	// invalid Arch Linux package names (the packager's own rule: ASCII
	// alphanumerics and . _ + -, not starting with hyphen or dot); two per scenario
	badNames := []string{"bad name!", "caf\u00e9", "p\u0430ckage", "tool\u0663", "-leading", ".leading", "with/slash", "semi;colon", "gr\u00f6\u00dfe-tool"}
	for i := 0; i < 2; i++ {
		bn := badNames[g.Intn(len(badNames))]
		mk("archlinux.name.invalid", []string{"archlinux"}, func(m map[string]any) { m["name"] = bn })
	}
	// content lists: the base list and every per-format replacement list
	eachList := func(m map[string]any, f func(l []any) []any) {
		base, _ := m["contents"].([]any)
		m["contents"] = f(base)
		if ov, ok := m["overrides"].(map[string]any); ok {
			for _, k := range Formats {
				if o, ok := ov[k].(map[string]any); ok {
					if l, ok := o["contents"].([]any); ok {
						o["contents"] = f(l)
					}
				}
			}
		}
	}
	mk("content.type.invalid", all, func(m map[string]any) {
		eachList(m, func(l []any) []any {
			return append(l, map[string]any{"src": "@SRC@src/bin/app", "dst": "/usr/bin/app-bogus", "type": "bogus"})
		})
	})
	mk("name.empty", all, func(m map[string]any) { m["name"] = "" })
	mk("content.collision", all, func(m map[string]any) {
		eachList(m, func(l []any) []any {
			return append(l, map[string]any{"src": "@SRC@src/bin/app", "dst": "/usr/bin/collide"},
				map[string]any{"src": "@SRC@src/bin/app", "dst": "/usr/bin/collide"})
		})
	})
	mk("content.collision.flattened-basenames", all, func(m map[string]any) {
		// one entry, destination ending in '/', two matches with the same base name
		eachList(m, func(l []any) []any {
			return append(l, map[string]any{"src": "@SRC@src/dup", "dst": "/usr/share/dup/"})
		})
	})
	// an owner name that the GNU tar format (deb, ipk) cannot hold, on a
	// directory that is followed by its own content: the unencodable entry is
	// not the last one written
	longOwner := strings.Repeat("o", 43)
	mk("content.owner.too-long-for-gnu-tar", []string{"deb", "ipk"}, func(m map[string]any) {
		eachList(m, func(l []any) []any {
			return append(l,
				map[string]any{"dst": "/opt/zzlong", "type": "dir", "file_info": map[string]any{"owner": longOwner, "mode": 0o750}},
				map[string]any{"src": "@SRC@src/bin/app", "dst": "/opt/zzlong/app"})
		})
	})
	// a subkeys-only export (the primary secret key is a stub) asked to sign
	// with its primary key: cannot work; with dpkg-sig the failure surfaces
	// when the clear-signer is closed
	haveD := false
	for _, e := range w.Tree {
		haveD = haveD || e.Path == "keys/subonly.asc"
	}
	if !haveD {
		w.Tree = append(w.Tree, TreeEntry{Path: "keys/subonly.asc", Kind: "file", KeyRef: "pgp_d.asc", Mode: 0o600, MTime: 1500000000})
		w.Tree = append(w.Tree, TreeEntry{Path: "keys/notrsa.pem", Kind: "file", KeyRef: "ec_a.pkcs8.priv", Mode: 0o600, MTime: 1500000000})
	}
	mk("deb.signature.dpkg-sig.primary-key-of-a-subkeys-only-file", []string{"deb"}, func(m map[string]any) {
		subMap(m, "deb")["signature"] = map[string]any{"key_file": "@SRC@keys/subonly.asc", "method": "dpkg-sig", "key_id": keyID("pgp_d")}
	})
	// apk signatures are RSA signatures
	mk("apk.signature.key-not-rsa", []string{"apk"}, func(m map[string]any) {
		subMap(m, "apk")["signature"] = map[string]any{"key_file": "@SRC@keys/notrsa.pem", "key_name": "verifkey"}
	})
	if contains(w.Signed, "deb") {
		mk("deb.signature.type.invalid", []string{"deb"}, func(m map[string]any) {
			s := subMap(subMap(m, "deb"), "signature")
			delete(s, "method")
			s["type"] = "bogus"
		})
	}
	return out
}

type c06state struct {
	elog *EventLog
	rt   *Runtime
	sc   *Scenario
	res  *RunResult
	seen map[string]bool
	dist map[string]bool
}

func (s *c06state) count(name string, n int64) {
	s.res.Counters[name] += n
}

func (s *c06state) violate(v Violation) {
	v.Property = "C06"
	if s.seen[v.Key()] {
		s.count("violations_duplicate", 1)
		return
	}
	s.seen[v.Key()] = true
	s.res.Violations = append(s.res.Violations, v)
}

// RunC06 executes a C06 scenario.
func RunC06(rt *Runtime, sc *Scenario) RunResult {
	res := RunResult{Run: sc.Run, RunSeed: sc.RunSeed, Counters: map[string]int64{}}
	st := &c06state{elog: NewEventLog(), rt: rt, sc: sc, res: &res, seen: map[string]bool{}, dist: map[string]bool{}}
	w := &sc.World
	plan := sc.C06
	if err := Materialize(rt.Root, w.Tree); err != nil {
		res.Trouble = "materialize: " + err.Error()
		return res
	}
	rt.SetEnv(w.Env)
	if err := rt.SetSrcMode(plan.SrcMode); err != nil {
		res.Trouble = "chdir: " + err.Error()
		return res
	}
	if plan.GoMaxProcs > 0 {
		old := runtime.GOMAXPROCS(plan.GoMaxProcs)
		defer runtime.GOMAXPROCS(old)
	}

	if len(plan.Cases) > 0 {
		// replay / minimised form: exactly the listed cases
		for i := range plan.Cases {
			st.runListedCase(&plan.Cases[i])
		}
	} else {
		for _, v := range plan.Variants {
			st.runVariant(v)
		}
		st.runInvalid()
		if plan.CLI && res.Trouble == "" {
			st.runCLITier()
		}
	}
	for k := range st.dist {
		res.Distinct = append(res.Distinct, k)
	}
	sort.Strings(res.Distinct)
	res.LogHash = st.elog.Sum()
	return res
}

// reference computes F for a variant through the shared reference model.
func (s *c06state) reference(v Variant, cfg string) (*RefInfo, bool) {
	gmp := 0
	if s.sc.C06 != nil {
		gmp = s.sc.C06.GoMaxProcs
	}
	ref, ok, err := s.rt.Reference(&s.sc.World, v.Format, v.Sign, cfg, gmp)
	s.count("builds", int64(ref.Builds))
	s.res.Notes = append(s.res.Notes, ref.Notes...)
	if err != nil {
		s.res.Trouble = "reference setup: " + err.Error()
		return ref, false
	}
	if !ok {
		s.count("reference_failed", 1)
		return ref, false
	}
	if ref.KeyFileSigned {
		s.count("probe.keyfile_signed_variant_no_byte_oracle", 1)
	} else if !ref.Stable {
		s.count("unstable_reference", 1)
	}
	return ref, true
}

func (s *c06state) checkFaulty(c *Case, out CaseOutcome, ref *RefInfo) {
	var F []byte
	var trace []int
	stable := false
	if ref != nil {
		F, trace, stable = ref.F, ref.Trace, ref.Stable
	}
	w := &s.sc.World
	if out.SetupErr != nil {
		s.res.Trouble = "case setup: " + out.SetupErr.Error()
		return
	}
	s.count("builds", 1)
	if out.Leaked {
		s.count("bubble_goroutine_leak", 1)
	}
	r := out.Res
	s.elog.Case(c, &r, needsSignBubble(&s.sc.World, c))
	faultFired := false
	class := c.Class
	group := ""
	site := ""
	switch c.Class {
	case "sink":
		class = sinkClass(c.Sink)
		group = "sink"
		if siteOf(trace, c.Sink.At) == "pad_after_odd" {
			site = "pad_after_odd"
		}
		if r.Fired > 0 {
			faultFired = true
			s.count("fault_fired."+class, 1)
		} else {
			s.count("fault_not_reached", 1)
		}
	case "signer":
		class = fmt.Sprintf("signer.call%d", c.Signer.FailCall)
		group = "signer"
		if out.Signer != nil && out.Signer.Failed > 0 {
			faultFired = true
			s.count("fault_fired.signer", 1)
		} else {
			s.count("fault_not_reached", 1)
		}
	case "ref":
		class = "ref." + c.Invalid + "." + c.FS.Kind
		faultFired = true
		s.count("fault_fired.ref."+c.FS.Kind, 1)
	case "invalid":
		class = "invalid." + c.Invalid
		faultFired = true
		s.count("fault_fired.invalid", 1)
	}
	if faultFired {
		dsite := site
		if c.Class == "sink" {
			dsite = siteOf(trace, c.Sink.At)
		}
		s.dist[fmt.Sprintf("%s|%s|%s|%s|%s|W%s", c.Format, c.Sign, compOf(w, c.Format), class, dsite, wBucket(len(trace)))] = true
	}
	failed := !r.OK()
	if faultFired && !failed {
		detail := fmt.Sprintf("%s: %s fault fired but Package returned nil", c.Format, class)
		if c.Class == "sink" {
			detail = fmt.Sprintf("%s: sink failed at write %d of %v (%s), Package returned nil; sink holds %d of %d bytes", c.Format, c.Sink.At, trace, class, len(r.Bytes), len(F))
		}
		cc := *c
		s.violate(Violation{Oracle: "O1", Format: c.Format, Group: group, Class: class, Site: site, Detail: detail, Case: &cc})
		return
	}
	if !failed && stable && F != nil && c.Class != "invalid" && c.Class != "ref" {
		if !ref.Match(r.Bytes) {
			cc := *c
			s.violate(Violation{Oracle: "O2", Format: c.Format, Group: group, Class: class, Site: site,
				Detail: fmt.Sprintf("%s: Package returned nil but the sink holds different bytes than the reference: %s", c.Format, firstDiff(r.Bytes, F)), Case: &cc})
		}
	}
}

func (s *c06state) partialNs(k, ln int) []int {
	if ln <= 0 {
		return nil
	}
	draws := s.sc.C06.PartialN
	set := map[int]bool{0: true, ln - 1: true}
	if len(draws) > 0 && ln > 2 {
		set[int(draws[k%len(draws)]%uint64(ln))] = true
	}
	var out []int
	for n := range set {
		out = append(out, n)
	}
	sort.Ints(out)
	return out
}

func (s *c06state) runVariant(v Variant) {
	w := &s.sc.World
	ref, ok := s.reference(v, "")
	if !ok {
		return
	}
	trace := ref.Trace
	s.count("reference_ok", 1)
	if len(trace) > 1 {
		s.count("probe.multi_write."+v.Format, 1)
	}
	for k := range trace {
		if k > 0 && trace[k] == 1 && trace[k-1]%2 == 1 {
			s.count("probe.odd_member_pad_write", 1)
		}
	}
	// 1. sink faults, exhaustive in k. Heavy payloads (deterministic rule:
	// more than 500 kB of sources) keep every k but fewer variants per k.
	total := 0
	for _, e := range w.Tree {
		total += e.Size
	}
	heavy := total > 500000
	for k := range trace {
		for _, persistent := range []bool{true, false} {
			c := Case{Format: v.Format, Sign: v.Sign, Class: "sink", Sink: &SinkFault{At: k, Kind: "error", Persistent: persistent}}
			if !heavy || persistent {
				s.checkFaulty(&c, s.rt.ExecCase(w, &c), ref)
			}
			for _, n := range s.partialNs(k, trace[k]) {
				if heavy && (persistent || n != trace[k]-1) {
					continue
				}
				c := Case{Format: v.Format, Sign: v.Sign, Class: "sink", Sink: &SinkFault{At: k, Kind: "partial", N: n, Persistent: persistent}}
				s.checkFaulty(&c, s.rt.ExecCase(w, &c), ref)
			}
		}
	}
	// 2. reference faults (as-configured variant only), one at a time
	if v.Sign == "" {
		for _, r := range w.Refs {
			if !contains(r.Formats, v.Format) {
				continue
			}
			kinds := []string{"remove"}
			if r.Single {
				kinds = append(kinds, "dir")
			}
			if r.Kind == "script" || r.Kind == "changelog" || r.Kind == "key" {
				kinds = append(kinds, "dangling", "eio")
			}
			if r.Kind == "key" {
				kinds = append(kinds, "truncate", "garbage", "empty")
			}
			for _, k := range kinds {
				c := Case{Format: v.Format, Class: "ref", Invalid: r.Kind, FS: &FSFault{Path: r.Path, Kind: k}}
				s.checkFaulty(&c, s.rt.ExecCase(w, &c), &RefInfo{Trace: trace})
			}
			// permission denied: the file itself, the directory a glob reads,
			// or a directory somewhere inside a tree
			up := r.Path
			if r.Kind == "tree" {
				up = ""
				for _, e := range w.Tree {
					if e.Kind == "dir" && strings.HasPrefix(e.Path, r.Path+"/") {
						nonEmpty := false
						for _, f := range w.Tree {
							if strings.HasPrefix(f.Path, e.Path+"/") {
								nonEmpty = true
							}
						}
						if nonEmpty {
							up = e.Path
							break
						}
					}
				}
			}
			if up != "" && !strings.Contains(r.Path, "dlink") {
				c := Case{Format: v.Format, Class: "ref", Invalid: r.Kind, FS: &FSFault{Path: up, Kind: "unreadable"}}
				s.checkFaulty(&c, s.rt.ExecCase(w, &c), &RefInfo{Trace: trace})
			}
		}
	}
	// 3. signer faults
	if v.Sign == "callback" && ref.Signer != nil {
		calls := len(ref.Signer.Calls)
		s.count(fmt.Sprintf("probe.signer_calls_%d.%s", calls, v.Format), 1)
		for i := 1; i <= calls; i++ {
			for _, rn := range []int{-1, 0, 10} {
				c := Case{Format: v.Format, Sign: "callback", Class: "signer", Signer: &SignerFault{FailCall: i, ReadN: rn}}
				s.checkFaulty(&c, s.rt.ExecCase(w, &c), ref)
			}
			// (the failing call hands back some bytes together with its error)
			cb := Case{Format: v.Format, Sign: "callback", Class: "signer", Signer: &SignerFault{FailCall: i, ReadN: -1, WithBytes: true}}
			s.checkFaulty(&cb, s.rt.ExecCase(w, &cb), ref)
		}
	}
}

func (s *c06state) runInvalid() {
	w := &s.sc.World
	for _, ic := range s.sc.C06.Invalid {
		for _, f := range ic.Formats {
			c := Case{Format: f, Class: "invalid", Invalid: ic.Class, Config: ic.Config}
			s.checkFaulty(&c, s.rt.ExecCase(w, &c), nil)
		}
	}
}

// runListedCase re-runs exactly one case (replay / minimisation).
func (s *c06state) runListedCase(c *Case) {
	w := &s.sc.World
	if c.Class == "cli" {
		s.runCLITier()
		return
	}
	var ref *RefInfo
	if c.Class == "sink" || c.Class == "signer" {
		r, ok := s.reference(Variant{Format: c.Format, Sign: c.Sign}, c.Config)
		if !ok {
			return
		}
		ref = r
	}
	s.checkFaulty(c, s.rt.ExecCase(w, c), ref)
}
