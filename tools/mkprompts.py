#!/usr/bin/env python3
# mkprompts.py: writes /tmp/prompt-<name>.txt for a wave of seeded-change
# sub-agents. Each sub-agent sees only the property text and its own worktree.
# usage: mkprompts.py name=angle-file-line ...   (angles are read from stdin as JSON {name: angle})
import json, sys
props = {}
for l in open('/verif/properties.jsonl'):
    p = json.loads(l); props[p['id']] = p
tmpl = '''You are helping test a verification tool by seeding a realistic defect into a Go project. Work ONLY inside the git worktree {wt} (a checkout of goreleaser/nfpm, a Go library + CLI that writes deb, rpm, apk, ipk and Arch Linux packages). Do not read or write anything under /verif, /repo or /root/.claude (no notes, no earlier conversations), and do not look at other /tmp/wt-* directories.

Environment: no network. Before every go command run: export GOFLAGS=-mod=mod GOPROXY=off GOSUMDB=off   (use the default `go`, version 1.23). The existing test suite is `go test -vet=off -count=1 $(go list ./... | grep -v /demo)` run in {wt}. IMPORTANT: never use `git stash` (the stash is shared between all worktrees of this repository and other people are working in sibling worktrees); to test without your change use `git diff > /tmp/{name}.patch && git apply -R /tmp/{name}.patch`, and `git apply /tmp/{name}.patch` to put it back. Put temporary files only under {wt} or /tmp/{name}-*, and remove the latter when done.

The property of nfpm that your change must BREAK:

  Title: {title}
  Statement: {statement}
  Quantifier: {quant}

Task: make a small, realistic change to the nfpm source (non-test .go files only; do not touch *_test.go, go.mod, testdata) such that
  1. the module still compiles (`go build ./...`) and the ENTIRE existing test suite still passes, unedited;
  2. the property above no longer holds - but only under something specific that YOU choose after reading the code: a particular input shape, fault position, order of operations or interleaving. Kind of change to aim for: {angle}. It must NOT be a change that ordinary use or a casual smoke test would expose at once; think of a plausible regression a maintainer could introduce by accident. Prefer subtle over blatant: the narrower the trigger (while still being something a real user could hit, with a legal io.Writer / legal configuration), the better. Be inventive: avoid the first idea that comes to mind; read the code for a less obvious place where the guarantee is provided implicitly. Any of the five formats or the shared code may be used.
  3. you write a demonstration - a Go test file at {wt}/demo/demo_test.go (package demo, importing github.com/goreleaser/nfpm/v2 and its packager packages; it may create temp files), or a small program under {wt}/demo/ if a test cannot show it - that FAILS with your change and PASSES without it. Verify both yourself.

Deliver, inside {wt}:
  - {wt}/MUTANT.diff : output of `git diff` for the source change only (not the demo);
  - {wt}/demo/ : the demonstration;
  - {wt}/META.txt : 5-10 lines: what you changed, why the existing tests do not notice, exactly what is needed for it to manifest (inputs / fault position / order of operations / interleaving), and the commands you ran with their observed results. If the demo needs the race detector, say "-race" in META.txt.
Leave the change APPLIED in the worktree when you finish. Keep the diff small (ideally under 30 changed lines). In your final message, summarise the change and the conditions in a few lines.'''
angles = json.load(sys.stdin)
for k, a in angles.items():
    p = props['C' + k[1:3]]
    open('/tmp/prompt-%s.txt' % k, 'w').write(tmpl.format(wt='/tmp/wt-' + k, name=k, title=p['title'], statement=p['statement'], quant=p['quantifier']['text'], angle=a))
print(len(angles), 'prompts written')
