package sim

import (
	"runtime"
	"syscall"
	"unsafe"
)

// The harness runs as root, for whom file permissions do not apply. To make
// "permission denied" a usable fault, the goroutine doing the build is locked
// to its OS thread and CAP_DAC_OVERRIDE / CAP_DAC_READ_SEARCH are cleared from
// that thread's *effective* set (capabilities are per thread; the permitted
// set is kept, so they are raised again afterwards).

type capHeader struct {
	version uint32
	pid     int32
}

type capData struct {
	effective, permitted, inheritable uint32
}

const (
	linuxCapVersion3 = 0x20080522
	capDacOverride   = 1
	capDacReadSearch = 2
)

func capget(d *[2]capData) error {
	h := capHeader{version: linuxCapVersion3}
	_, _, e := syscall.RawSyscall(syscall.SYS_CAPGET, uintptr(unsafe.Pointer(&h)), uintptr(unsafe.Pointer(d)), 0)
	if e != 0 {
		return e
	}
	return nil
}

func capset(d *[2]capData) error {
	h := capHeader{version: linuxCapVersion3}
	_, _, e := syscall.RawSyscall(syscall.SYS_CAPSET, uintptr(unsafe.Pointer(&h)), uintptr(unsafe.Pointer(d)), 0)
	if e != 0 {
		return e
	}
	return nil
}

// WithoutFilePrivileges runs f on the calling goroutine with the DAC
// capabilities dropped. ok=false means capabilities could not be changed
// (then f has not run).
func WithoutFilePrivileges(f func()) (ok bool) {
	runtime.LockOSThread()
	defer runtime.UnlockOSThread()
	var d [2]capData
	if err := capget(&d); err != nil {
		return false
	}
	saved := d
	d[0].effective &^= 1<<capDacOverride | 1<<capDacReadSearch
	if err := capset(&d); err != nil {
		return false
	}
	defer capset(&saved)
	f()
	return true
}
