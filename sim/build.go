package sim

import (
	"fmt"
	"os"
	"path/filepath"
	"sort"
	"strings"
	"testing"
	"testing/synctest"
	"time"

	"github.com/goreleaser/nfpm/v2"
	_ "github.com/goreleaser/nfpm/v2/apk"
	_ "github.com/goreleaser/nfpm/v2/arch"
	_ "github.com/goreleaser/nfpm/v2/deb"
	"github.com/goreleaser/nfpm/v2/deprecation"
	_ "github.com/goreleaser/nfpm/v2/ipk"
	_ "github.com/goreleaser/nfpm/v2/rpm"
)

// Runtime owns the process-global seams of one worker process (S4): cwd,
// environment, time.Local, GOMAXPROCS. One scenario at a time per process.
type Runtime struct {
	Root    string // materialised tree
	T       *testing.T
	srcMode string
	envKeys []string
	Extra   map[string]string // driver-provided paths (CLI binary, ...)
}

// envManaged are cleared before every scenario so the host environment never
// leaks into a run.
var envManaged = []string{
	"SOURCE_DATE_EPOCH", "NFPM_PASSPHRASE", "NFPM_DEB_PASSPHRASE",
	"NFPM_RPM_PASSPHRASE", "NFPM_APK_PASSPHRASE", "VERIF_DEP", "VERIF_REL", "VERIF_EMPTY",
}

type nullNoticer struct{}

func (nullNoticer) Println(...any)              {}
func (nullNoticer) Printf(string, ...any)       {}
func (nullNoticer) Write(p []byte) (int, error) { return len(p), nil }

func NewRuntime(root string, t *testing.T) *Runtime {
	return &Runtime{Root: root, T: t}
}

// SetEnv installs the scenario's environment in the process.
func (rt *Runtime) SetEnv(env map[string]string) {
	for _, k := range envManaged {
		os.Unsetenv(k)
	}
	for _, k := range rt.envKeys {
		os.Unsetenv(k)
	}
	rt.envKeys = rt.envKeys[:0]
	keys := make([]string, 0, len(env))
	for k := range env {
		keys = append(keys, k)
	}
	sort.Strings(keys)
	for _, k := range keys {
		os.Setenv(k, env[k])
		rt.envKeys = append(rt.envKeys, k)
	}
}

// SetSrcMode chooses how sources are spelled and moves the process there.
func (rt *Runtime) SetSrcMode(mode string) error {
	if mode == "" {
		mode = "rel"
	}
	rt.srcMode = mode
	switch mode {
	case "rel":
		os.Unsetenv("PWD")
		return os.Chdir(rt.Root)
	case "abs":
		os.Unsetenv("PWD")
		return os.Chdir("/")
	case "dotdot":
		d := filepath.Join(rt.Root, ".cwd")
		if err := os.MkdirAll(d, 0o755); err != nil {
			return err
		}
		os.Unsetenv("PWD")
		return os.Chdir(d)
	case "dotdot-linked-cwd":
		// the same working directory, entered through a symbolic link that
		// lives elsewhere, with $PWD saying so (what an interactive shell
		// does): ".." is the parent of the directory, not of the link
		d := filepath.Join(rt.Root, ".cwd")
		if err := os.MkdirAll(d, 0o755); err != nil {
			return err
		}
		ld := filepath.Join(filepath.Dir(rt.Root), "verif-cwdlink")
		if err := os.MkdirAll(ld, 0o755); err != nil {
			return err
		}
		l := filepath.Join(ld, "c")
		os.Remove(l)
		if err := os.Symlink(d, l); err != nil {
			return err
		}
		if err := os.Chdir(l); err != nil {
			return err
		}
		return os.Setenv("PWD", l)
	}
	return fmt.Errorf("unknown src mode %q", mode)
}

func (rt *Runtime) srcPrefix() string {
	switch rt.srcMode {
	case "abs":
		return rt.Root + "/"
	case "dotdot", "dotdot-linked-cwd":
		return "../"
	}
	return ""
}

// ConfigText returns the YAML exactly as nfpm.Parse sees it.
func (rt *Runtime) ConfigText(cfg string) string {
	return strings.ReplaceAll(cfg, "@SRC@", rt.srcPrefix())
}

// ParseConfig parses a fresh copy of the configuration.
func (rt *Runtime) ParseConfig(cfg string) (nfpm.Config, error) {
	return nfpm.ParseWithEnvMapping(strings.NewReader(rt.ConfigText(cfg)), os.Getenv)
}

type BuildOpts struct {
	Format  string
	Config  string // "" = world config
	Fault   *SinkFault
	Signer  *SimSigner // installed as SignFn when non-nil
	NoSign  bool       // strip configured signatures (unsigned variant)
	PreName bool       // ConventionalFileName before Package (the CLI's pattern)
	Yield   func(site string)
}

type BuildResult struct {
	ParseErr error
	Err      error
	Sink     *Sink // (late writes are asked of it after the bubble has ended)
	Bytes    []byte
	Trace    []int
	Fired    int
	Name     string
}

func (r *BuildResult) OK() bool { return r.ParseErr == nil && r.Err == nil }

// installSigner puts the simulated signer where the format looks for it.
func installSigner(info *nfpm.Info, format string, s *SimSigner) {
	switch format {
	case "deb":
		info.Deb.Signature.SignFn = s.Fn()
	case "rpm":
		info.RPM.Signature.SignFn = s.Fn()
	case "apk":
		info.APK.Signature.SignFn = s.Fn()
		// a library user who signs through a callback names the key; without
		// a maintainer address nfpm cannot derive a name
		if info.APK.Signature.KeyName == "" && info.Maintainer == "" {
			info.APK.Signature.KeyName = "verifcallback"
		}
	}
}

func stripSignature(info *nfpm.Info) {
	info.Deb.Signature.KeyFile = ""
	info.RPM.Signature.KeyFile = ""
	info.APK.Signature.KeyFile = ""
}

// PackageInfo runs one packaging of prepared settings into a fresh Sink.
func PackageInfo(info *nfpm.Info, o BuildOpts) BuildResult {
	var res BuildResult
	p, err := nfpm.Get(o.Format)
	if err != nil {
		res.Err = err
		return res
	}
	if o.NoSign {
		stripSignature(info)
	}
	if o.Signer != nil {
		o.Signer.Yield = o.Yield
		installSigner(info, o.Format, o.Signer)
	}
	if o.PreName {
		res.Name = p.ConventionalFileName(info)
	}
	sink := NewSink(o.Fault)
	sink.Yield = o.Yield
	res.Err = p.Package(info, sink)
	sink.MarkReturned()
	res.Sink = sink
	res.Bytes = sink.Bytes()
	res.Trace = sink.Trace
	res.Fired = sink.Fired
	return res
}

// Build = the reference path F when no fault is given: parse a fresh copy of
// the configuration, take the format's effective settings, apply defaults,
// package once. This is the CLI's sequence (internal/cmd/package.go).
func (rt *Runtime) Build(w *World, o BuildOpts) BuildResult {
	cfgText := o.Config
	if cfgText == "" {
		cfgText = w.Config
	}
	cfg, err := rt.ParseConfig(cfgText)
	if err != nil {
		return BuildResult{ParseErr: err}
	}
	info, err := cfg.Get(o.Format)
	if err != nil {
		return BuildResult{Err: err}
	}
	info = nfpm.WithDefaults(info)
	return PackageInfo(info, o)
}

// FakeEpoch is where synctest's fake clock starts.
var FakeEpoch = time.Date(2000, 1, 1, 0, 0, 0, 0, time.UTC)

// InBubble runs f in a synctest bubble whose clock reads FakeEpoch+offset. A
// goroutine leaked by a packager makes synctest panic at the end of the
// bubble; that is reported as leaked=true, not as a crash.
func (rt *Runtime) InBubble(offset time.Duration, f func()) (leaked bool) {
	// The bubble lives in a subtest: when the race detector reports during
	// the bubble, testing fails that (sub)test and FailNow()s out of
	// synctest.Test; in a subtest this ends only the subtest goroutine and
	// the worker goes on to write its result.
	rt.T.Run("bubble", func(t *testing.T) {
		defer func() {
			if r := recover(); r != nil {
				msg := fmt.Sprint(r)
				if strings.Contains(msg, "deadlock") || strings.Contains(msg, "blocked") {
					leaked = true
					return
				}
				panic(r)
			}
		}()
		synctest.Test(t, func(*testing.T) {
			if offset > 0 {
				time.Sleep(offset)
			}
			f()
		})
	})
	return leaked
}

// SimNow: the simulated instant at which every non-C07 build runs (after the
// harness keys' creation time, so key-file signing accepts the keys).
//
// It is placed one hour after the youngest harness key was created and
// therefore before the real clock of any later run: signatures made at this
// instant are neither older than their key nor in the future for a verifier
// that uses the real clock (gpgv), so no time conflict has to be ignored.
var SimNow = time.Date(2026, 10, 2, 7, 30, 0, 0, time.UTC).Sub(FakeEpoch)

func init() {
	deprecation.Noticer = nullNoticer{}
}
