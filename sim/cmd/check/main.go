// check is the driver of the deterministic-simulation checks: it rebuilds the
// harness against /repo's current working tree, shards simulated runs over
// worker processes, aggregates what they covered into the evidence file,
// minimises and replays violations, and sets the exit code:
//
//	0  the property held on everything explored (KNOWN-FINDING lines allowed)
//	1  a violation was found (line "VIOLATION property=<id> replay=<path>")
//	2  harness trouble (build failure, watchdog, self-test failure)
package main

import (
	"bufio"
	"bytes"
	"crypto/sha256"
	"encoding/hex"
	"encoding/json"
	"flag"
	"fmt"
	"os"
	"os/exec"
	"os/signal"
	"path/filepath"
	"regexp"
	"sort"
	"strconv"
	"strings"
	"sync"
	"syscall"
	"time"

	"verifsim"
)

const (
	repoDir = "/repo"
	goBin   = "/opt/veriftools/go1.26.8/bin/go"
)

// verifDir: /verif, or a snapshot of it (VERIF_HOME, set by bin/check from its
// own location) so that a long background run is not disturbed by edits.
var (
	verifDir = verifHome()
	simDir   = verifDir + "/sim"
)

func verifHome() string {
	if h := os.Getenv("VERIF_HOME"); h != "" {
		return h
	}
	return "/verif"
}

type tierCfg struct {
	Runs          int
	Workers       int
	WorkerTimeout time.Duration
	Race          bool
	PerRunProcess bool // one fresh OS process per simulated run: a run is a function of its scenario alone (no caches warmed by an earlier scenario), and a race report belongs to exactly one run
	CLI           bool
	Instrument    bool // build against an ast-instrumented scratch copy
}

var tiers = map[string]map[string]tierCfg{
	"C06": {
		"quick":    {Runs: 48, Workers: 16, WorkerTimeout: 8 * time.Minute, CLI: true, PerRunProcess: true},
		"thorough": {Runs: 1600, Workers: 16, WorkerTimeout: 3 * time.Hour, CLI: true, PerRunProcess: true},
	},
	"C07": {
		"quick":    {Runs: 96, Workers: 16, WorkerTimeout: 8 * time.Minute, CLI: true, PerRunProcess: true},
		"thorough": {Runs: 3200, Workers: 16, WorkerTimeout: 3 * time.Hour, CLI: true, PerRunProcess: true},
	},
	"C10": {
		"quick":    {Runs: 64, Workers: 16, WorkerTimeout: 8 * time.Minute, PerRunProcess: true},
		"thorough": {Runs: 2400, Workers: 16, WorkerTimeout: 3 * time.Hour, PerRunProcess: true},
	},
	"C11": {
		"quick":    {Runs: 32, Workers: 16, WorkerTimeout: 8 * time.Minute, PerRunProcess: true},
		"thorough": {Runs: 1200, Workers: 16, WorkerTimeout: 3 * time.Hour, PerRunProcess: true},
	},
	"C12": {
		"quick":    {Runs: 192, Workers: 16, WorkerTimeout: 8 * time.Minute, Race: true, PerRunProcess: true, Instrument: true},
		"thorough": {Runs: 4000, Workers: 16, WorkerTimeout: 3 * time.Hour, Race: true, PerRunProcess: true, Instrument: true},
	},
}

var levels = map[string]string{
	"C06": "fault_enumeration", "C07": "exploration", "C10": "fault_enumeration", "C11": "exploration", "C12": "exploration",
}

var propNum = map[string]uint64{"C06": 6, "C07": 7, "C10": 10, "C11": 11, "C12": 12}

type driver struct {
	prop    string
	tier    string
	cfg     tierCfg
	seed    uint64
	scratch string
	bin     string // worker test binary
	cli     string // nfpm CLI binary
	start   time.Time
	extra   map[string]string
	env     []string
}

func trouble(format string, a ...any) {
	fmt.Fprintf(os.Stderr, "HARNESS-TROUBLE: "+format+"\n", a...)
}

func main() {
	os.Exit(realMain())
}

func realMain() int {
	if len(os.Args) < 2 {
		fmt.Fprintln(os.Stderr, "usage: check <C06|C07|C10|C11|C12|selftest> [--tier quick|thorough] [--replay file] [--runs N] [--workers N]")
		return 2
	}
	prop := os.Args[1]
	fs := flag.NewFlagSet("check", flag.ExitOnError)
	tier := fs.String("tier", "", "quick or thorough (default: $VERIF_TIER or quick)")
	replay := fs.String("replay", "", "replay file")
	runs := fs.Int("runs", 0, "override number of runs")
	workers := fs.Int("workers", 0, "override number of workers")
	from := fs.Int("from", 0, "first run index")
	noEvidence := fs.Bool("no-evidence", false, "do not write the evidence file")
	noMin := fs.Bool("no-minimise", false, "skip minimisation")
	det := fs.Int("determinism", 0, "self-test: repeat every run N times across GOMAXPROCS and compare event-log hashes")
	fs.Parse(os.Args[2:])
	if *tier == "" {
		*tier = os.Getenv("VERIF_TIER")
	}
	if *tier == "" {
		*tier = "quick"
	}
	seed := uint64(1)
	if s := os.Getenv("VERIF_SEED"); s != "" {
		v, err := strconv.ParseUint(s, 10, 64)
		if err != nil {
			trouble("bad VERIF_SEED %q", s)
			return 2
		}
		seed = v
	}
	tc, ok := tiers[prop][*tier]
	if !ok {
		trouble("unknown property/tier %s/%s", prop, *tier)
		return 2
	}
	if *runs > 0 {
		tc.Runs = *runs
	}
	if *workers > 0 {
		tc.Workers = *workers
	}
	d := &driver{prop: prop, tier: *tier, cfg: tc, seed: seed, start: time.Now(), extra: map[string]string{}}
	d.scratch = filepath.Join("/dev/shm", fmt.Sprintf("verif-%d", os.Getpid()))
	os.RemoveAll(d.scratch)
	if err := os.MkdirAll(d.scratch, 0o755); err != nil {
		trouble("scratch: %v", err)
		return 2
	}
	sig := make(chan os.Signal, 1)
	signal.Notify(sig, syscall.SIGINT, syscall.SIGTERM)
	go func() {
		<-sig
		os.RemoveAll(d.scratch)
		os.Exit(2)
	}()
	defer func() {
		// a worker that died between mount and unmount leaves a tmpfs behind
		filepath.WalkDir(d.scratch, func(p string, e os.DirEntry, err error) error {
			if err == nil && e.IsDir() && e.Name() == "fulldisk" {
				syscall.Unmount(p, syscall.MNT_DETACH)
			}
			return nil
		})
		os.RemoveAll(d.scratch)
		// relocated tree copies of this run's workers (other file system)
		if ms, _ := filepath.Glob(filepath.Join(os.TempDir(), "verif-reloc", fmt.Sprintf("verif-%d_*", os.Getpid()))); len(ms) > 0 {
			for _, m := range ms {
				os.RemoveAll(m)
			}
		}
	}()
	d.env = append(os.Environ(),
		"GOFLAGS=-mod=mod", "GOPROXY=off", "GOSUMDB=off", "GOTOOLCHAIN=local", "GONOSUMDB=*", "GONOSUMCHECK=1",
		"CGO_ENABLED=1",
	)
	fmt.Printf("check %s tier=%s VERIF_SEED=%d runs=%d workers=%d\n", prop, *tier, seed, tc.Runs, tc.Workers)
	if *det > 0 {
		// ast-inserted yields sit inside nfpm's own range-over-map loops,
		// whose iteration order Go randomises (S9): schedules over them are
		// not a function of the seed. The determinism self-test therefore
		// covers the coarse yield points; see DESIGN.md 10.10.
		d.cfg.Instrument = false
	}
	if *replay != "" {
		// a replay file recorded under the instrumented build needs it again
		if b, err := os.ReadFile(*replay); err == nil {
			var sc sim.Scenario
			if json.Unmarshal(b, &sc) == nil && sc.C12 != nil {
				d.cfg.Instrument = sc.C12.Instr
			}
		}
	}
	if err := d.build(); err != nil {
		trouble("build: %v", err)
		return 2
	}
	if *replay != "" {
		abs, err := filepath.Abs(*replay)
		if err != nil {
			trouble("replay path: %v", err)
			return 2
		}
		return d.replay(abs)
	}
	if *det > 0 {
		return d.determinism(*from, tc.Runs, *det)
	}
	return d.explore(*from, *noEvidence, *noMin)
}

func (d *driver) run(dir string, timeout time.Duration, extraEnv []string, name string, args ...string) ([]byte, error) {
	cmd := exec.Command(name, args...)
	cmd.Dir = dir
	cmd.Env = append(append([]string{}, d.env...), extraEnv...)
	var out bytes.Buffer
	cmd.Stdout = &out
	cmd.Stderr = &out
	if err := cmd.Start(); err != nil {
		return nil, err
	}
	done := make(chan error, 1)
	go func() { done <- cmd.Wait() }()
	select {
	case err := <-done:
		return out.Bytes(), err
	case <-time.After(timeout):
		cmd.Process.Kill()
		<-done
		return out.Bytes(), fmt.Errorf("watchdog: %s timed out after %v", name, timeout)
	}
}

// build compiles the harness (and the CLI) from the repository's current
// working tree: /repo, or $VERIF_REPO for sweeps over scratch copies.
func (d *driver) build() error {
	t0 := time.Now()
	repo := repoDir
	if r := os.Getenv("VERIF_REPO"); r != "" {
		repo = r
	}
	d.bin = filepath.Join(d.scratch, "sim.test")
	args := []string{"test", "-c", "-o", d.bin}
	if d.cfg.Race {
		args = append(args, "-race")
	}
	target := repo
	if d.cfg.Instrument {
		inst, err := d.instrument(repo)
		if err != nil {
			return fmt.Errorf("instrument: %w", err)
		}
		target = inst
		args = append(args, "-tags", "verifinstr")
	}
	if target != repoDir {
		// same go.mod, other replace target
		mod, err := os.ReadFile(filepath.Join(simDir, "go.mod"))
		if err != nil {
			return err
		}
		alt := strings.Replace(string(mod), "=> "+repoDir, "=> "+target, 1)
		if alt == string(mod) {
			return fmt.Errorf("go.mod has no replace => %s", repoDir)
		}
		mf := filepath.Join(d.scratch, "alt.mod")
		if err := os.WriteFile(mf, []byte(alt), 0o644); err != nil {
			return err
		}
		sum, _ := os.ReadFile(filepath.Join(simDir, "go.sum"))
		os.WriteFile(filepath.Join(d.scratch, "alt.sum"), sum, 0o644)
		args = append(args, "-modfile="+mf)
	}
	args = append(args, ".")
	out, err := d.run(simDir, 20*time.Minute, nil, goBin, args...)
	if err != nil {
		return fmt.Errorf("go test -c failed: %v\n%s", err, out)
	}
	if d.cfg.CLI {
		d.cli = filepath.Join(d.scratch, "nfpm")
		out, err := d.run(repo, 20*time.Minute, nil, goBin, "build", "-o", d.cli, "./cmd/nfpm")
		if err != nil {
			return fmt.Errorf("go build ./cmd/nfpm failed: %v\n%s", err, out)
		}
		d.extra["cli"] = d.cli
	}
	fmt.Printf("built harness from %s in %.1fs\n", target, time.Since(t0).Seconds())
	return nil
}

// instrument copies the repository to scratch and inserts scheduler yield
// points with cmd/instr. Returns the copy's path.
func (d *driver) instrument(repo string) (string, error) {
	dst := filepath.Join(d.scratch, "repo-instr")
	if out, err := d.run("/", 5*time.Minute, nil, "rsync", "-a", "--exclude", ".git", "--exclude", "www", repo+"/", dst+"/"); err != nil {
		return "", fmt.Errorf("rsync: %v\n%s", err, out)
	}
	out, err := d.run(simDir, 10*time.Minute, nil, goBin, "run", "./cmd/instr", dst)
	if err != nil {
		return "", fmt.Errorf("instr: %v\n%s", err, out)
	}
	fmt.Print(string(out))
	return dst, nil
}

type workerArgs struct {
	Mode      string            `json:"mode"`
	Property  string            `json:"property"`
	VerifSeed uint64            `json:"verif_seed"`
	From      int               `json:"from"`
	To        int               `json:"to"`
	Stride    int               `json:"stride"`
	Offset    int               `json:"offset"`
	Out       string            `json:"out"`
	Root      string            `json:"root"`
	Scenario  string            `json:"scenario"`
	Tier      string            `json:"tier"`
	Samples   int               `json:"samples"`
	Extra     map[string]string `json:"extra,omitempty"`
}

func (d *driver) worker(a workerArgs, timeout time.Duration, extraEnv []string) ([]byte, error) {
	a.Extra = d.extra
	a.Tier = d.tier
	b, _ := json.Marshal(a)
	env := append([]string{"VERIF_WORKER=" + string(b), "GORACE=history_size=7 halt_on_error=0 exitcode=66"}, extraEnv...)
	return d.run(d.scratch, timeout, env, d.bin, "-test.run", "^TestWorker$", "-test.timeout", "0", "-test.cpu", "1")
}

func readResults(path string) ([]sim.RunResult, error) {
	f, err := os.Open(path)
	if err != nil {
		return nil, err
	}
	defer f.Close()
	var out []sim.RunResult
	sc := bufio.NewScanner(f)
	sc.Buffer(make([]byte, 1<<20), 1<<30)
	for sc.Scan() {
		var r sim.RunResult
		if err := json.Unmarshal(sc.Bytes(), &r); err != nil {
			return out, fmt.Errorf("%s: %w", path, err)
		}
		out = append(out, r)
	}
	return out, sc.Err()
}

type knownFinding struct {
	Property string `json:"property"`
	Status   string `json:"status"` // known | fixed
	Commit   string `json:"commit,omitempty"`
	Match    struct {
		Oracle string `json:"oracle"`
		Format string `json:"format"`
		Class  string `json:"class"` // regexp
		Site   string `json:"site"`  // regexp
	} `json:"match"`
	What string `json:"what"`
}

func loadKnown() ([]knownFinding, error) {
	b, err := os.ReadFile(filepath.Join(verifDir, "known_findings.json"))
	if err != nil {
		if os.IsNotExist(err) {
			return nil, nil
		}
		return nil, err
	}
	var doc struct {
		Findings []knownFinding `json:"findings"`
	}
	if err := json.Unmarshal(b, &doc); err != nil {
		return nil, err
	}
	return doc.Findings, nil
}

func matchKnown(kf []knownFinding, v *sim.Violation) *knownFinding {
	for i := range kf {
		k := &kf[i]
		if k.Status != "known" || k.Property != v.Property {
			continue
		}
		if k.Match.Oracle != "" && k.Match.Oracle != v.Oracle {
			continue
		}
		if k.Match.Format != "" && k.Match.Format != v.Format {
			continue
		}
		if k.Match.Class != "" {
			if ok, _ := regexp.MatchString("^(?:"+k.Match.Class+")$", v.Class); !ok {
				continue
			}
		}
		if k.Match.Site != "" {
			if ok, _ := regexp.MatchString("^(?:"+k.Match.Site+")$", v.Site); !ok {
				continue
			}
		}
		return k
	}
	return nil
}

type found struct {
	v  sim.Violation
	sc *sim.Scenario
	n  int
}

func (d *driver) explore(from int, noEvidence, noMin bool) int {
	cfg := d.cfg
	W := cfg.Workers
	if W > cfg.Runs {
		W = cfg.Runs
	}
	type wres struct {
		out []byte
		err error
	}
	results := make([]wres, W)
	var wg sync.WaitGroup
	t0 := time.Now()
	for w := 0; w < W; w++ {
		wg.Add(1)
		go func(w int) {
			defer wg.Done()
			a := workerArgs{Mode: "explore", Property: d.prop, VerifSeed: d.seed, From: from, To: from + cfg.Runs, Stride: W, Offset: w,
				Out: filepath.Join(d.scratch, fmt.Sprintf("w%d.jsonl", w)), Root: filepath.Join(d.scratch, fmt.Sprintf("w%d", w), "root"), Samples: 1}
			if cfg.PerRunProcess {
				results[w].out, results[w].err = d.perRunWorker(a, cfg.WorkerTimeout)
			} else {
				results[w].out, results[w].err = d.worker(a, cfg.WorkerTimeout, nil)
			}
		}(w)
	}
	wg.Wait()
	wall := time.Since(t0)

	counters := map[string]int64{}
	distinct := map[string]bool{}
	var samples []any
	groups := map[string]*found{}
	var order []string
	nres := 0
	var slowMs int64
	slowRun := -1
	troubles := []string{}
	var notes []string
	for w := 0; w < W; w++ {
		if results[w].err != nil {
			troubles = append(troubles, fmt.Sprintf("worker %d: %v\n%s", w, results[w].err, tail(results[w].out, 4000)))
		}
		rs, err := readResults(filepath.Join(d.scratch, fmt.Sprintf("w%d.jsonl", w)))
		if err != nil {
			troubles = append(troubles, fmt.Sprintf("worker %d results: %v", w, err))
		}
		for i := range rs {
			r := &rs[i]
			nres++
			if r.WallMs > slowMs {
				slowMs, slowRun = r.WallMs, r.Run
			}
			if r.Trouble != "" {
				troubles = append(troubles, fmt.Sprintf("run %d (seed %d): %s", r.Run, r.RunSeed, r.Trouble))
			}
			for k, v := range r.Counters {
				counters[k] += v
			}
			for _, k := range r.Distinct {
				distinct[k] = true
			}
			if r.Sample != nil && len(samples) < 4 {
				samples = append(samples, r.Sample)
			}
			if len(notes) < 20 {
				for _, n := range r.Notes {
					if len(notes) < 20 {
						notes = append(notes, fmt.Sprintf("run %d: %s", r.Run, n))
					}
				}
			}
			for j := range r.Violations {
				v := r.Violations[j]
				k := v.Key()
				g, ok := groups[k]
				if !ok {
					g = &found{v: v, sc: r.Scenario}
					groups[k] = g
					order = append(order, k)
				} else if r.Scenario != nil && g.sc != nil && r.Run < g.sc.Run {
					g.v, g.sc = v, r.Scenario
				}
				g.n++
			}
		}
	}
	sort.Strings(order)
	if nres != cfg.Runs {
		troubles = append(troubles, fmt.Sprintf("expected %d run results, got %d", cfg.Runs, nres))
	}

	known, err := loadKnown()
	if err != nil {
		troubles = append(troubles, "known_findings.json: "+err.Error())
	}
	exit := 0
	nviol := 0
	knownSeen := map[string]bool{}
	var violationLines []string
	minBudget := 3
	for _, k := range order {
		g := groups[k]
		if kf := matchKnown(known, &g.v); kf != nil {
			if !knownSeen[kf.What] {
				knownSeen[kf.What] = true
				fmt.Printf("KNOWN-FINDING: property=%s %s (seen in %d runs; e.g. %s)\n", d.prop, kf.What, g.n, oneLine(g.v.Detail))
			}
			continue
		}
		nviol++
		exit = 1
		sc := g.sc
		if sc == nil {
			troubles = append(troubles, "violation without scenario: "+k)
			continue
		}
		rp := *sc
		vv := g.v
		rp.Violation = &vv
		final := &rp
		if !noMin && minBudget > 0 {
			minBudget--
			final = d.minimise(&rp)
		} else {
			final = d.reduceToCase(&rp)
		}
		path := filepath.Join(verifDir, "replays", fmt.Sprintf("%s-%s-%d.json", d.prop, shortHash(k), sc.RunSeed))
		os.MkdirAll(filepath.Dir(path), 0o755)
		b, _ := json.MarshalIndent(final, "", " ")
		if err := os.WriteFile(path, b, 0o644); err != nil {
			troubles = append(troubles, "write replay: "+err.Error())
			continue
		}
		// replay once more in a fresh process before reporting
		if ok, why := d.confirm(path, &g.v); !ok {
			// The reduced scenario lost something the violation needs -
			// typically what the same process did earlier in the scenario
			// (a cache warmed by a previous case). Fall back to the whole
			// scenario as the replay file.
			fb, _ := json.MarshalIndent(&rp, "", " ")
			ok2 := false
			if os.WriteFile(path, fb, 0o644) == nil {
				ok2, _ = d.confirm(path, &g.v)
			}
			if !ok2 {
				troubles = append(troubles, fmt.Sprintf("replay of %s did not reproduce %s: %s", path, k, why))
				continue
			}
			final = &rp
			fmt.Printf("(the minimised scenario did not reproduce %s in a fresh process; the replay file is the whole scenario)\n", k)
		}
		fmt.Printf("violation: %s (in %d runs): %s\n", k, g.n, oneLine(final.Violation.Detail))
		violationLines = append(violationLines, fmt.Sprintf("VIOLATION property=%s replay=%s", d.prop, path))
	}

	// reach probes: a thorough run that no longer reaches what it claims is
	// harness trouble, not a pass.
	if n := counters["reference_failed"]; n > 0 {
		troubles = append(troubles, fmt.Sprintf("%d fault-free reference builds of generated (valid) configurations failed: %s", n, strings.Join(notes, "; ")))
	}
	for _, p := range requiredProbes(d.prop, d.tier) {
		if counters[p] == 0 {
			troubles = append(troubles, "reach probe stuck at zero: "+p)
		}
	}

	if !noEvidence {
		if err := d.writeEvidence(counters, distinct, samples, notes, nres, nviol, wall); err != nil {
			troubles = append(troubles, "evidence: "+err.Error())
		}
	}
	fmt.Printf("slowest run: %d (%.1fs)\n", slowRun, float64(slowMs)/1000)
	fmt.Printf("%s: %d runs, %d builds, %d distinct non-trivial cases, %.1fs wall, %d violation classes\n", d.prop, nres, counters["builds"], len(distinct), wall.Seconds(), nviol)
	for _, l := range violationLines {
		fmt.Println(l)
	}
	if len(troubles) > 0 {
		for _, t := range troubles {
			trouble("%s", t)
		}
		if exit == 0 || len(violationLines) == 0 {
			return 2
		}
	}
	return exit
}

func tail(b []byte, n int) string {
	if len(b) > n {
		b = b[len(b)-n:]
	}
	return string(b)
}

func oneLine(s string) string {
	s = strings.ReplaceAll(s, "\n", " ")
	if len(s) > 300 {
		s = s[:300] + "…"
	}
	return s
}

func shortHash(s string) string {
	h := sha256.Sum256([]byte(s))
	return hex.EncodeToString(h[:4])
}

func requiredProbes(prop, tier string) []string {
	switch prop {
	case "C06":
		p := []string{"reference_ok", "fault_fired.sink.persistent.error", "fault_fired.sink.transient.partial", "fault_fired.ref.remove", "fault_fired.invalid", "fault_fired.signer", "probe.multi_write.archlinux", "probe.multi_write.deb"}
		return p
	case "C07":
		return []string{"probe.clock_reaches_output", "probe.stamps.deb", "probe.stamps.rpm", "probe.stamps.apk", "probe.stamps.ipk", "probe.stamps.archlinux", "builds_child", "timestamps_checked"}
	case "C10":
		return []string{"probe.verified.deb.keyfile", "probe.verified.deb.callback", "probe.verified.rpm.keyfile", "probe.verified.rpm.callback", "probe.verified.apk.keyfile", "probe.verified.apk.callback", "fault_fired.signer", "fault_fired.keyfile", "fault_fired.sigtype", "signatures_verified"}
	case "C11":
		return []string{"histories", "ops", "fault_fired.package_fail"}
	case "C12":
		return []string{"runs_baton", "runs_free", "context_switches", "yields"}
	}
	return nil
}

// runScenario runs one scenario file in a fresh worker process.
func (d *driver) runScenario(sc *sim.Scenario, tag string) (*sim.RunResult, error) {
	p := filepath.Join(d.scratch, "cand-"+tag+".json")
	b, _ := json.Marshal(sc)
	if err := os.WriteFile(p, b, 0o644); err != nil {
		return nil, err
	}
	return d.runScenarioFile(p, tag)
}

func (d *driver) runScenarioFile(p, tag string) (*sim.RunResult, error) {
	outp := filepath.Join(d.scratch, "cand-"+tag+".out")
	os.Remove(outp)
	a := workerArgs{Mode: "run", Property: d.prop, Scenario: p, Out: outp, Root: filepath.Join(d.scratch, "cand-"+tag, "root")}
	var out []byte
	var err error
	if d.cfg.PerRunProcess {
		out, err = d.raceRun(a, 5*time.Minute)
	} else {
		out, err = d.worker(a, 5*time.Minute, nil)
	}
	rs, rerr := readResults(outp)
	if len(rs) == 0 {
		if err == nil {
			err = rerr
		}
		return nil, fmt.Errorf("no result: %v\n%s", err, tail(out, 2000))
	}
	if d.cfg.PerRunProcess {
		d.attachRace(&rs[0], out)
	}
	return &rs[0], nil
}

func hasKey(r *sim.RunResult, key string) *sim.Violation {
	for i := range r.Violations {
		if r.Violations[i].Key() == key {
			return &r.Violations[i]
		}
	}
	return nil
}

func (d *driver) confirm(path string, v *sim.Violation) (bool, string) {
	// schedules of library-internal goroutines and map iteration order are
	// not seeded: violations that come through them (C07 nondeterministic
	// output, C12 race reports) replay statistically
	attempts := 1
	if d.prop == "C12" || d.prop == "C07" || strings.Contains(v.Class, "strace") {
		attempts = 6
	}
	if v.Oracle == "race" {
		// whether two clients meet in a sync.Pool depends on the P each runs
		// on and on the race-mode runtime dropping a quarter of all Puts at
		// random: neither is a seam of the harness. One attempt is one
		// short-lived process.
		attempts = 30
	}
	why := ""
	for i := 0; i < attempts; i++ {
		r, err := d.runScenarioFile(path, "confirm")
		if err != nil {
			why = err.Error()
			continue
		}
		if hasKey(r, v.Key()) != nil {
			return true, ""
		}
		why = fmt.Sprintf("violations seen: %d, trouble=%q", len(r.Violations), r.Trouble)
	}
	return false, why
}

func (d *driver) replay(path string) int {
	b, err := os.ReadFile(path)
	if err != nil {
		trouble("read replay: %v", err)
		return 2
	}
	var sc sim.Scenario
	if err := json.Unmarshal(b, &sc); err != nil {
		trouble("parse replay: %v", err)
		return 2
	}
	if sc.Property != d.prop {
		trouble("replay file is for %s, not %s", sc.Property, d.prop)
		return 2
	}
	attempts := 1
	if d.prop == "C12" || d.prop == "C07" {
		attempts = 6
	}
	if sc.Violation != nil && sc.Violation.Oracle == "race" {
		attempts = 30 // see confirm
	}
	for i := 0; i < attempts; i++ {
		r, err := d.runScenarioFile(path, "replay")
		if err != nil {
			trouble("replay: %v", err)
			return 2
		}
		if r.Trouble != "" {
			trouble("replay: %s", r.Trouble)
			return 2
		}
		if sc.Violation != nil {
			if v := hasKey(r, sc.Violation.Key()); v != nil {
				fmt.Printf("reproduced: %s: %s\n", v.Key(), oneLine(v.Detail))
				if v.RaceText != "" {
					fmt.Println(v.RaceText)
				}
				fmt.Printf("VIOLATION property=%s replay=%s\n", d.prop, path)
				return 1
			}
		}
		if len(r.Violations) > 0 {
			for _, v := range r.Violations {
				fmt.Printf("different violation: %s: %s\n", v.Key(), oneLine(v.Detail))
			}
			fmt.Printf("VIOLATION property=%s replay=%s\n", d.prop, path)
			return 1
		}
	}
	fmt.Println("replay: no violation (the recorded violation does not reproduce on this tree)")
	return 0
}

func (d *driver) writeEvidence(counters map[string]int64, distinct map[string]bool, samples []any, notes []string, nres, nviol int, wall time.Duration) error {
	keys := make([]string, 0, len(distinct))
	for k := range distinct {
		keys = append(keys, k)
	}
	sort.Strings(keys)
	faults := map[string]int64{}
	probes := map[string]int64{}
	other := map[string]int64{}
	for k, v := range counters {
		switch {
		case strings.HasPrefix(k, "fault_fired."):
			faults[strings.TrimPrefix(k, "fault_fired.")] = v
		case strings.HasPrefix(k, "probe."):
			probes[strings.TrimPrefix(k, "probe.")] = v
		default:
			other[k] = v
		}
	}
	if len(samples) == 0 {
		samples = append(samples, map[string]any{"note": "no sample recorded"})
	}
	distSample := keys
	if len(distSample) > 12 {
		distSample = distSample[:12]
	}
	cov := map[string]any{
		"evaluations":          counters["builds"] + counters["evaluations_extra"],
		"distinct_nontrivial":  len(keys),
		"rule":                 ruleText(d.prop),
		"samples":              samples,
		"distinct_case_sample": distSample,
		"simulated_runs":       nres,
		"runs_per_hour":        int(float64(nres) / wall.Hours()),
		"verif_seed":           d.seed,
		"run_seeds":            fmt.Sprintf("Mix(VERIF_SEED=%d, %d, i) for i in [0,%d)", d.seed, propNum[d.prop], nres),
		"sim_time_covered_s":   counters["sim_time_s"],
		"faults_fired":         faults,
		"probes":               probes,
		"counters":             other,
		"notes":                notes,
		"components_real":      []string{"all nfpm packages (nfpm, files, deb, rpm, apk, ipk, arch, internal/*)", "rpmpack, blakesmith/ar, pgzip, klauspost zstd/gzip, ulikunitz/xz, go-crypto, chglog, fileglob, mergo, yaml.v3", "Go runtime scheduler for library-internal goroutines", "kernel tmpfs for the source tree"},
		"components_simulated": []string{"output sink (io.Writer)", "signer callback (SignFn)", "wall clock (testing/synctest fake clock)", "environment / cwd / GOMAXPROCS / time.Local", "caller-level scheduling (baton scheduler, C12)", "CLI target disk (size-limited tmpfs = real ENOSPC at a drawn offset, /dev/full, strace EIO injection into source reads)"},
		"toolchain":            "go1.26.8 (testing/synctest); nfpm compiled from /repo working tree",
		"workers":              d.cfg.Workers,
	}
	ev := map[string]any{
		"property_id": d.prop,
		"tier":        d.tier,
		"seed":        d.seed,
		"level":       levels[d.prop],
		"coverage":    cov,
		"assumptions": assumptions(d.prop),
		"wall_s":      time.Since(d.start).Seconds(),
		"violations":  nviol,
	}
	b, err := json.MarshalIndent(ev, "", " ")
	if err != nil {
		return err
	}
	os.MkdirAll(filepath.Join(verifDir, "evidence"), 0o755)
	return os.WriteFile(filepath.Join(verifDir, "evidence", d.prop+".json"), b, 0o644)
}

func ruleText(prop string) string {
	switch prop {
	case "C06":
		return "scenarios (source tree + configuration) are drawn from the seeded generator; per scenario and per format/signing variant the write trace of the fault-free reference build is recorded and a fault is injected at EVERY write index k (error, and short writes of 0 / len-1 / a drawn length; persistent and transient), every referenced file is removed / replaced by a directory / dangling link one at a time, every invalid-setting class and every signer call is failed; evaluations = packaging calls executed; a case is non-trivial when its fault actually fired; distinct = distinct (format, signing variant, compressor, fault class, site class, write-count bucket) tuples among those"
	case "C07":
		return "per scenario every format is built J times, each build under a PRNG-drawn simulated environment (fake clock offset, time.Local, GOMAXPROCS, source spelling/cwd, process history, parallel neighbour, child process); evaluations = builds; a case is non-trivial when the build succeeded and its environment differs from the first build's; distinct = distinct (format, compressor, tz, gomaxprocs, src mode, history, neighbour, child, clock bucket) tuples"
	case "C10":
		return "scenarios with signing configured; fault-free builds are verified with the public key over bytes reconstructed from the sink; every signer call, key-file corruption, passphrase and signature-type fault is injected one at a time; evaluations = packaging calls; non-trivial = signature verified, or fault fired; distinct = distinct (format, method/type, key kind, path, fault class) tuples"
	case "C11":
		return "one parsed Config per scenario; histories over {validate, get, name, package, name+package, package-fail} x five formats: all 120 orders of the five packagings, all histories of length <= 2, sampled length 3 (in one run of sixteen - probe deep3 - every history a, b, package(f) of length 3: 31 x 31 x 5), and PRNG-drawn histories up to length 12; evaluations = operations executed; non-trivial = history with at least two operations on different formats; distinct = distinct (config hash, history) pairs"
	case "C12":
		return "2-6 client goroutines packaging concurrently under the baton scheduler (one runs at a time; who runs next at each yield is a recorded PRNG draw) in a -race build, plus a free-running cross-check; evaluations = client packagings; non-trivial = run with at least one context switch between clients that share a Config or registry; distinct = distinct (client formats, switch sequence, yield-site trace) hashes"
	}
	return ""
}

func assumptions(prop string) []string {
	a := []string{
		"nfpm is compiled with go1.26.8's standard library instead of the repository's default 1.23.5 (testing/synctest needs >= 1.25)",
		"goroutine scheduling inside pgzip/zstd and Go map iteration order are not seeded; they are sampled by repetition",
		"a clean batch is evidence over the sampled scenarios, not a proof",
	}
	switch prop {
	case "C06":
		a = append(a, "in-process source read errors other than missing/unreadable paths are covered only by the CLI tier under strace", "close(2) failures of the CLI target are outside the property's statement and only probed")
	case "C12":
		a = append(a, "the race detector is a sensor without false positives but with schedule-dependent false negatives (bounded per-goroutine history)")
	}
	return a
}
